// vcheck runs one property check: vcheck <id> [quick|thorough] [--replay path]
package main

import (
	"fmt"
	"os"
	"runtime/debug"

	"verif/core"
	"verif/props"
)

func main() {
	if len(os.Args) < 2 {
		fmt.Println("usage: vcheck <property|selftest> [quick|thorough] [--replay path]")
		os.Exit(2)
	}
	core.ApplyASLimit()
	debug.SetGCPercent(1000) // checks allocate many short-lived codecs; trade memory for GC time
	id := os.Args[1]
	args := os.Args[2:]
	if props.GovsIDs[id] {
		props.ExecGovs(os.Args[1:])
	}
	f, ok := props.Registry[id]
	if !ok {
		core.Infra("unknown check %q", id)
	}
	f(args)
}
