// vcheck runs one property check: vcheck <id> [quick|thorough] [--replay path]
package main

import (
	"fmt"
	"os"

	"verif/core"
	"verif/props"
)

func main() {
	if len(os.Args) < 2 {
		fmt.Println("usage: vcheck <property|selftest> [quick|thorough] [--replay path]")
		os.Exit(2)
	}
	id := os.Args[1]
	args := os.Args[2:]
	f, ok := props.Registry[id]
	if !ok {
		core.Infra("unknown check %q", id)
	}
	f(args)
}
