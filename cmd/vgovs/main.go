// vgovs runs one check on the instrumented packages: vgovs <id> [quick|thorough] [--replay path]
package main

import (
	"fmt"
	"os"
	"runtime/debug"

	"verif/core"
	"verif/gprops"
)

func main() {
	core.ApplyASLimit()
	debug.SetGCPercent(400)
	if len(os.Args) < 2 {
		fmt.Println("usage: vgovs <property> [quick|thorough]")
		os.Exit(2)
	}
	f, ok := gprops.Registry[os.Args[1]]
	if !ok {
		core.Infra("unknown govs check %q", os.Args[1])
	}
	f(os.Args[2:])
}
