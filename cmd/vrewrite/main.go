// vrewrite generates instrumented copies of wl2k-go packages for `go build -overlay`:
//
//	vrewrite -out DIR -govs pkg1,pkg2 -vfs pkg3 [-add PKGDIR=FILE ...]
//
// -govs packages get the full source-to-source rewrite of DESIGN.md §4.1 (channels, select, go,
// shimmed imports, vs.Access instrumentation); -vfs packages only get os / io/ioutil routed
// through the file-system seam. The originals are read from the working tree at every run.
package main

import (
	"bytes"
	"encoding/json"
	"flag"
	"fmt"
	"go/ast"
	"go/format"
	"go/token"
	"go/types"
	"os"
	"path/filepath"
	"sort"
	"strconv"
	"strings"

	"golang.org/x/tools/go/ast/astutil"
	"golang.org/x/tools/go/packages"
)

const module = "github.com/la5nta/wl2k-go"

var govsImports = map[string]string{
	"sync":        "verif/vs/vsync",
	"sync/atomic": "verif/vs/vatomic",
	"time":        "verif/vs/vtime",
	"context":     "verif/vs/vcontext",
	"net":         "verif/vs/vnet",
	"runtime":     "verif/vs/vruntime",
}

var vfsImports = map[string]string{
	"os":        "verif/vfs/vos",
	"io/ioutil": "verif/vfs/vioutil",
	"log":       "verif/vfs/vlog",
}

func die(format string, a ...any) {
	fmt.Fprintf(os.Stderr, "vrewrite: "+format+"\n", a...)
	os.Exit(3)
}

func main() {
	out := flag.String("out", "", "output directory")
	govs := flag.String("govs", "", "comma separated package paths (relative to the module) for the full rewrite")
	vfs := flag.String("vfs", "", "comma separated package paths for the file-system seam only")
	repo := flag.String("repo", "/repo", "repository root")
	vroot := flag.String("vroot", "/verif", "verification tree root")
	vpkgs := flag.String("vpkg", "", "comma separated import paths inside the verif module for the full rewrite (shim-conformance programs)")
	var adds multi
	flag.Var(&adds, "add", "PKGDIR=FILE: add FILE to the package directory (relative to the module)")
	flag.Parse()
	if *out == "" {
		die("-out required")
	}
	mode := map[string]string{}
	var patterns []string
	for _, p := range strings.Split(*govs, ",") {
		if p != "" {
			mode[module+"/"+p] = "govs"
			patterns = append(patterns, module+"/"+p)
		}
	}
	for _, p := range strings.Split(*vfs, ",") {
		if p != "" {
			if mode[module+"/"+p] == "" {
				mode[module+"/"+p] = "vfs"
				patterns = append(patterns, module+"/"+p)
			} else {
				mode[module+"/"+p] = "govs+vfs"
			}
		}
	}
	cfg := &packages.Config{
		Mode: packages.NeedName | packages.NeedSyntax | packages.NeedTypes | packages.NeedTypesInfo | packages.NeedDeps | packages.NeedImports | packages.NeedFiles | packages.NeedCompiledGoFiles,
		Dir:  *repo,
		Env:  append(os.Environ(), "GOFLAGS=-mod=mod", "GOPROXY=off"),
	}
	pkgs, err := packages.Load(cfg, patterns...)
	if err != nil {
		die("load: %v", err)
	}
	if *vpkgs != "" {
		vcfg := *cfg
		vcfg.Dir = *vroot
		var vp []string
		for _, p := range strings.Split(*vpkgs, ",") {
			mode[p] = "govs"
			vp = append(vp, p)
		}
		more, err := packages.Load(&vcfg, vp...)
		if err != nil {
			die("load: %v", err)
		}
		pkgs = append(pkgs, more...)
	}
	overlay := map[string]string{}
	os.MkdirAll(*out, 0o755)
	nfiles := 0
	for _, pkg := range pkgs {
		if len(pkg.Errors) > 0 {
			die("package %s: %v", pkg.PkgPath, pkg.Errors)
		}
		m := mode[pkg.PkgPath]
		for _, f := range pkg.Syntax {
			name := pkg.Fset.Position(f.Pos()).Filename
			rw := &rewriter{pkg: pkg, file: f, fset: pkg.Fset, govs: strings.Contains(m, "govs"), vfs: strings.Contains(m, "vfs"), fname: shortName(name)}
			changed := rw.run()
			if !changed {
				continue
			}
			var buf bytes.Buffer
			if err := format.Node(&buf, pkg.Fset, f); err != nil {
				die("format %s: %v", name, err)
			}
			dst := filepath.Join(*out, strings.ReplaceAll(strings.TrimPrefix(strings.TrimPrefix(name, *repo+"/"), *vroot+"/"), "/", "__"))
			if err := os.WriteFile(dst, buf.Bytes(), 0o644); err != nil {
				die("%v", err)
			}
			overlay[name] = dst
			nfiles++
		}
	}
	for _, a := range adds {
		parts := strings.SplitN(a, "=", 2)
		if len(parts) != 2 {
			die("bad -add %q", a)
		}
		overlay[filepath.Join(*repo, parts[0], "zz_verif_"+filepath.Base(parts[1]))] = parts[1]
	}
	b, _ := json.MarshalIndent(map[string]any{"Replace": overlay}, "", " ")
	if err := os.WriteFile(filepath.Join(*out, "overlay.json"), b, 0o644); err != nil {
		die("%v", err)
	}
	fmt.Printf("vrewrite: %d files rewritten in %d packages\n", nfiles, len(pkgs))
}

type multi []string

func (m *multi) String() string     { return strings.Join(*m, ",") }
func (m *multi) Set(s string) error { *m = append(*m, s); return nil }

func shortName(p string) string {
	d, f := filepath.Split(p)
	return filepath.Base(filepath.Clean(d)) + "/" + f
}

// ---- per-file rewriter -----------------------------------------------------------------------

type rewriter struct {
	pkg   *packages.Package
	file  *ast.File
	fset  *token.FileSet
	govs  bool
	vfs   bool
	fname string

	needVS     bool
	needUnsafe bool
	tmp        int
	changed    bool

	recv2      map[*ast.UnaryExpr]bool // v, ok := <-c
	commHeads  map[ast.Node]bool       // statements that are heads of comm clauses
	shared     map[types.Object]bool   // variables subject to vs.Access
	goBodies   map[*ast.FuncLit]bool
	skipAccess map[ast.Node]bool
	chanArg    map[*ast.CallExpr]bool
	chanRange  map[*ast.RangeStmt]bool
	constArg   map[ast.Expr]bool
	goFunTypes map[*ast.GoStmt]*types.Signature
}

func (r *rewriter) info() *types.Info { return r.pkg.TypesInfo }

func (r *rewriter) isChan(e ast.Expr) bool {
	tv, ok := r.info().Types[e]
	if !ok || tv.Type == nil {
		return false
	}
	_, is := tv.Type.Underlying().(*types.Chan)
	return is
}

func (r *rewriter) isBuiltin(e ast.Expr, name string) bool {
	id, ok := e.(*ast.Ident)
	if !ok || id.Name != name {
		return false
	}
	_, isB := r.info().Uses[id].(*types.Builtin)
	return isB
}

func (r *rewriter) run() bool {
	// imports
	for _, imp := range r.file.Imports {
		path, _ := strconv.Unquote(imp.Path.Value)
		var to string
		if r.govs {
			to = govsImports[path]
		}
		if to == "" && r.vfs {
			to = vfsImports[path]
		}
		if to == "" {
			continue
		}
		local := filepath.Base(path)
		if imp.Name != nil {
			local = imp.Name.Name
		}
		imp.Name = ast.NewIdent(local)
		imp.Path.Value = strconv.Quote(to)
		imp.EndPos = 0
		r.changed = true
	}
	if !r.govs {
		return r.changed
	}
	r.analyse()
	r.apply()
	if r.needVS {
		astutil.AddNamedImport(r.fset, r.file, "vs", "verif/vs")
		r.changed = true
	}
	if r.needUnsafe {
		astutil.AddImport(r.fset, r.file, "unsafe")
	}
	return r.changed
}

func (r *rewriter) analyse() {
	r.recv2 = map[*ast.UnaryExpr]bool{}
	r.commHeads = map[ast.Node]bool{}
	r.shared = map[types.Object]bool{}
	r.goBodies = map[*ast.FuncLit]bool{}
	r.skipAccess = map[ast.Node]bool{}
	pkgScope := r.pkg.Types.Scope()
	ast.Inspect(r.file, func(n ast.Node) bool {
		switch x := n.(type) {
		case *ast.AssignStmt:
			if len(x.Lhs) == 2 && len(x.Rhs) == 1 {
				if u, ok := unparen(x.Rhs[0]).(*ast.UnaryExpr); ok && u.Op == token.ARROW {
					r.recv2[u] = true
				}
			}
		case *ast.ValueSpec:
			if len(x.Names) == 2 && len(x.Values) == 1 {
				if u, ok := unparen(x.Values[0]).(*ast.UnaryExpr); ok && u.Op == token.ARROW {
					r.recv2[u] = true
				}
			}
		case *ast.CommClause:
			if x.Comm != nil {
				r.commHeads[x.Comm] = true
			}
		case *ast.LabeledStmt:
			if _, ok := x.Stmt.(*ast.SelectStmt); ok {
				die("%s: labelled select is not supported", r.fset.Position(x.Pos()))
			}
		case *ast.GoStmt:
			if fl, ok := x.Call.Fun.(*ast.FuncLit); ok {
				r.goBodies[fl] = true
				// locals captured by the go-closure
				ast.Inspect(fl.Body, func(m ast.Node) bool {
					if id, ok := m.(*ast.Ident); ok {
						if v, ok := r.info().Uses[id].(*types.Var); ok && !v.IsField() {
							if v.Pkg() == r.pkg.Types && v.Parent() != pkgScope && (v.Pos() < fl.Pos() || v.Pos() > fl.End()) {
								r.shared[v] = true
							}
						}
					}
					return true
				})
			}
		case *ast.Ident:
			if v, ok := r.info().Uses[x].(*types.Var); ok && !v.IsField() && v.Pkg() == r.pkg.Types && v.Parent() == pkgScope {
				r.shared[v] = true
			}
		}
		return true
	})
}

func unparen(e ast.Expr) ast.Expr {
	for {
		p, ok := e.(*ast.ParenExpr)
		if !ok {
			return e
		}
		e = p.X
	}
}

func (r *rewriter) vsSel(name string) ast.Expr {
	r.needVS = true
	return &ast.SelectorExpr{X: ast.NewIdent("vs"), Sel: ast.NewIdent(name)}
}

func call(fun ast.Expr, args ...ast.Expr) *ast.CallExpr { return &ast.CallExpr{Fun: fun, Args: args} }
func method(x ast.Expr, name string, args ...ast.Expr) *ast.CallExpr {
	return call(&ast.SelectorExpr{X: x, Sel: ast.NewIdent(name)}, args...)
}
func str(s string) ast.Expr { return &ast.BasicLit{Kind: token.STRING, Value: strconv.Quote(s)} }

func (r *rewriter) temp(prefix string) *ast.Ident {
	r.tmp++
	return ast.NewIdent(fmt.Sprintf("__%s%d", prefix, r.tmp))
}

// siteFn is file:function:line (signatures use file:function, which survives line shifts).
func (r *rewriter) siteFn(p token.Pos) string {
	pos := r.fset.Position(p)
	fn := "?"
	for _, d := range r.file.Decls {
		if fd, ok := d.(*ast.FuncDecl); ok && fd.Pos() <= p && p <= fd.End() {
			fn = fd.Name.Name
			if fd.Recv != nil && len(fd.Recv.List) == 1 {
				t := fd.Recv.List[0].Type
				if st, ok := t.(*ast.StarExpr); ok {
					t = st.X
				}
				if id, ok := t.(*ast.Ident); ok {
					fn = id.Name + "." + fn
				}
			}
		}
	}
	return fmt.Sprintf("%s:%s:%d", r.fname, fn, pos.Line)
}

func (r *rewriter) site(p token.Pos) string {
	pos := r.fset.Position(p)
	return fmt.Sprintf("%s:%d", r.fname, pos.Line)
}

func (r *rewriter) apply() {
	// statement-level Access insertion first (needs pristine nodes for type info), then structure
	r.instrumentAccess()
	astutil.Apply(r.file, nil, func(c *astutil.Cursor) bool {
		switch x := c.Node().(type) {
		case *ast.ChanType:
			c.Replace(&ast.StarExpr{X: &ast.IndexExpr{X: r.vsSel("Chan"), Index: x.Value}})
			r.changed = true
		case *ast.SendStmt:
			if r.commHeads[x] {
				return true
			}
			c.Replace(&ast.ExprStmt{X: method(x.Chan, "Send", x.Value)})
			r.changed = true
		case *ast.UnaryExpr:
			if x.Op != token.ARROW {
				return true
			}
			if p, ok := c.Parent().(*ast.ExprStmt); ok && r.commHeads[p] {
				return true
			}
			if r.inCommHead(c) {
				return true
			}
			if r.recv2[x] {
				c.Replace(method(x.X, "Recv2"))
			} else {
				c.Replace(method(x.X, "Recv"))
			}
			r.changed = true
		case *ast.CallExpr:
			if len(x.Args) >= 1 && r.isBuiltin(x.Fun, "make") {
				if ct, ok := x.Args[0].(*ast.StarExpr); ok { // already rewritten chan type
					if ix, ok := ct.X.(*ast.IndexExpr); ok {
						if se, ok := ix.X.(*ast.SelectorExpr); ok && se.Sel.Name == "Chan" {
							nc := call(&ast.IndexExpr{X: r.vsSel("NewChan"), Index: ix.Index}, x.Args[1:]...)
							c.Replace(nc)
							r.changed = true
							return true
						}
					}
				}
			}
			if len(x.Args) == 1 && r.chanArg[x] {
				switch {
				case r.isBuiltin(x.Fun, "close"):
					c.Replace(method(x.Args[0], "Close"))
				case r.isBuiltin(x.Fun, "len"):
					c.Replace(method(x.Args[0], "Len"))
				case r.isBuiltin(x.Fun, "cap"):
					c.Replace(method(x.Args[0], "Cap"))
				}
				r.changed = true
			}
		case *ast.RangeStmt:
			if r.chanRange[x] {
				x.X = method(x.X, "All")
				r.changed = true
			}
		case *ast.SelectStmt:
			c.Replace(r.rewriteSelect(x))
			r.changed = true
		case *ast.GoStmt:
			c.Replace(r.rewriteGo(x))
			r.changed = true
		}
		return true
	})
}

// inCommHead reports whether the cursor's node sits directly in the head of a comm clause
// (assignment/define form), which the select rewrite consumes.
func (r *rewriter) inCommHead(c *astutil.Cursor) bool {
	switch p := c.Parent().(type) {
	case *ast.AssignStmt:
		return r.commHeads[p]
	case *ast.ParenExpr:
		_ = p
	}
	return false
}

func (r *rewriter) rewriteSelect(sel *ast.SelectStmt) ast.Stmt {
	r.needVS = true
	block := &ast.BlockStmt{}
	var cases []ast.Expr
	sw := &ast.SwitchStmt{Body: &ast.BlockStmt{}}
	hasDefault := false
	idx := 0
	for _, cl := range sel.Body.List {
		cc := cl.(*ast.CommClause)
		if cc.Comm == nil {
			hasDefault = true
			sw.Body.List = append(sw.Body.List, &ast.CaseClause{Body: cc.Body})
			continue
		}
		var body []ast.Stmt
		switch h := cc.Comm.(type) {
		case *ast.SendStmt:
			ct, vt := r.temp("c"), r.temp("v")
			if r.constArg[h.Value] {
				block.List = append(block.List, &ast.AssignStmt{Lhs: []ast.Expr{ct}, Tok: token.DEFINE, Rhs: []ast.Expr{h.Chan}})
				cases = append(cases, method(ct, "SendCase", h.Value))
			} else {
				block.List = append(block.List, &ast.AssignStmt{Lhs: []ast.Expr{ct, vt}, Tok: token.DEFINE, Rhs: []ast.Expr{h.Chan, h.Value}})
				cases = append(cases, method(ct, "SendCase", vt))
			}
		case *ast.ExprStmt: // case <-c:
			u := unparen(h.X).(*ast.UnaryExpr)
			ct, st := r.temp("c"), r.temp("s")
			block.List = append(block.List, &ast.AssignStmt{Lhs: []ast.Expr{ct}, Tok: token.DEFINE, Rhs: []ast.Expr{u.X}},
				&ast.AssignStmt{Lhs: []ast.Expr{st}, Tok: token.DEFINE, Rhs: []ast.Expr{method(ct, "NewSlot")}})
			cases = append(cases, method(ct, "RecvCase", st))
		case *ast.AssignStmt: // case v := <-c / v, ok = <-c
			u := unparen(h.Rhs[0]).(*ast.UnaryExpr)
			ct, st := r.temp("c"), r.temp("s")
			block.List = append(block.List, &ast.AssignStmt{Lhs: []ast.Expr{ct}, Tok: token.DEFINE, Rhs: []ast.Expr{u.X}},
				&ast.AssignStmt{Lhs: []ast.Expr{st}, Tok: token.DEFINE, Rhs: []ast.Expr{method(ct, "NewSlot")}})
			cases = append(cases, method(ct, "RecvCase", st))
			rhs := []ast.Expr{&ast.SelectorExpr{X: method(st, "Sync"), Sel: ast.NewIdent("V")}}
			if len(h.Lhs) == 2 {
				rhs = append(rhs, &ast.SelectorExpr{X: st, Sel: ast.NewIdent("Ok")})
			}
			body = append(body, &ast.AssignStmt{Lhs: h.Lhs, Tok: h.Tok, Rhs: rhs})
			if h.Tok == token.DEFINE {
				for _, l := range h.Lhs {
					if id, ok := l.(*ast.Ident); ok && id.Name != "_" {
						body = append(body, &ast.AssignStmt{Lhs: []ast.Expr{ast.NewIdent("_")}, Tok: token.ASSIGN, Rhs: []ast.Expr{ast.NewIdent(id.Name)}})
					}
				}
			}
		default:
			die("%s: unsupported comm clause", r.fset.Position(cc.Pos()))
		}
		body = append(body, cc.Body...)
		sw.Body.List = append(sw.Body.List, &ast.CaseClause{List: []ast.Expr{&ast.BasicLit{Kind: token.INT, Value: strconv.Itoa(idx)}}, Body: body})
		idx++
	}
	if !hasDefault {
		sw.Body.List = append(sw.Body.List, &ast.CaseClause{Body: []ast.Stmt{&ast.ExprStmt{X: call(ast.NewIdent("panic"), str("vs: select without default returned no case"))}}})
	}
	hd := "false"
	if hasDefault {
		hd = "true"
	}
	args := append([]ast.Expr{str(r.siteFn(sel.Pos())), ast.NewIdent(hd)}, cases...)
	sw.Tag = call(r.vsSel("Select"), args...)
	block.List = append(block.List, sw)
	return block
}

func (r *rewriter) rewriteGo(g *ast.GoStmt) ast.Stmt {
	r.needVS = true
	c := g.Call
	if fl, ok := c.Fun.(*ast.FuncLit); ok && len(c.Args) == 0 {
		return &ast.ExprStmt{X: call(r.vsSel("Go"), fl)}
	}
	block := &ast.BlockStmt{}
	var lhs, rhs []ast.Expr
	fun := c.Fun
	if _, isLit := c.Fun.(*ast.FuncLit); !isLit {
		ft := r.temp("f")
		lhs, rhs = append(lhs, ft), append(rhs, c.Fun)
		fun = ft
	}
	var sig *types.Signature
	if tv, ok := r.goFunTypes[g]; ok {
		sig = tv
	}
	args := make([]ast.Expr, len(c.Args))
	for i, a := range c.Args {
		if r.constArg[a] {
			args[i] = a
			continue
		}
		at := r.temp("a")
		lhs = append(lhs, at)
		rhs = append(rhs, a)
		args[i] = at
	}
	_ = sig
	if len(lhs) > 0 {
		block.List = append(block.List, &ast.AssignStmt{Lhs: lhs, Tok: token.DEFINE, Rhs: rhs})
	}
	inner := &ast.CallExpr{Fun: fun, Args: args, Ellipsis: c.Ellipsis}
	if c.Ellipsis == token.NoPos {
		inner.Ellipsis = token.NoPos
	}
	block.List = append(block.List, &ast.ExprStmt{X: call(r.vsSel("Go"), &ast.FuncLit{Type: &ast.FuncType{Params: &ast.FieldList{}}, Body: &ast.BlockStmt{List: []ast.Stmt{&ast.ExprStmt{X: inner}}}})})
	return block
}

// ---- vs.Access instrumentation (DESIGN.md §4.1 "race oracle") ----------------------------------

var containerRO = map[string]map[string]bool{
	"bytes.Buffer":        {"Len": true, "Cap": true, "Bytes": true, "String": true, "Available": true},
	"strings.Builder":     {"Len": true, "Cap": true, "String": true},
	"bufio.Reader":        {"Buffered": true, "Size": true},
	"bufio.Writer":        {"Buffered": true, "Size": true, "Available": true},
	"container/list.List": {"Len": true, "Front": true, "Back": true},
}

type access struct {
	loc   string
	write bool
	ptr   string // printed Go expression yielding the unsafe.Pointer identity of the location
	after bool   // recorded after the statement: the write of an assignment whose right-hand side may synchronise
}

// maySync reports whether evaluating e may block or synchronise (a call that is not a conversion
// or a builtin, or a receive): the assignment itself then happens after that synchronisation, and
// its write must not be recorded with the clock the thread had before.
func (r *rewriter) maySync(e ast.Node) bool {
	found := false
	ast.Inspect(e, func(n ast.Node) bool {
		switch x := n.(type) {
		case *ast.FuncLit:
			return false
		case *ast.UnaryExpr:
			if x.Op == token.ARROW {
				found = true
			}
		case *ast.CallExpr:
			if tv, ok := r.info().Types[x.Fun]; ok && tv.IsType() {
				return true
			}
			if id, ok := unparen(x.Fun).(*ast.Ident); ok {
				if _, isB := r.info().Uses[id].(*types.Builtin); isB {
					return true
				}
			}
			found = true
		}
		return !found
	})
	return found
}

func mkAccess(loc string, write bool, ptr string) access {
	return access{loc: loc, write: write, ptr: ptr}
}

func (r *rewriter) src(e ast.Expr) string {
	var b bytes.Buffer
	format.Node(&b, r.fset, e)
	return b.String()
}

// memPtr is the identity of the memory denoted by the addressable path expression e.
func (r *rewriter) memPtr(e ast.Expr) string {
	if t := r.info().TypeOf(e); t != nil {
		if _, isMap := t.Underlying().(*types.Map); isMap {
			return "vs.MapPtr(&" + r.src(e) + ")"
		}
	}
	return "unsafe.Pointer(&" + r.src(e) + ")"
}

// objPtr is the identity of the container object a method is called on.
func (r *rewriter) objPtr(e ast.Expr) string {
	if t := r.info().TypeOf(e); t != nil {
		if _, isPtr := t.Underlying().(*types.Pointer); isPtr {
			return "unsafe.Pointer(" + r.src(e) + ")"
		}
	}
	return "unsafe.Pointer(&" + r.src(e) + ")"
}

func (r *rewriter) objLoc(v types.Object) string {
	p := r.fset.Position(v.Pos())
	return fmt.Sprintf("%s:%d:%s", r.fname, p.Line, v.Name())
}

func containerName(t types.Type) string {
	if p, ok := t.(*types.Pointer); ok {
		t = p.Elem()
	}
	n, ok := t.(*types.Named)
	if !ok || n.Obj().Pkg() == nil {
		return ""
	}
	full := n.Obj().Pkg().Path() + "." + n.Obj().Name()
	if _, ok := containerRO[full]; ok {
		return full
	}
	return ""
}

// rootAndPath resolves x.f.g / x to (root var, "x.f.g").
func (r *rewriter) rootAndPath(e ast.Expr) (types.Object, string) {
	switch x := unparen(e).(type) {
	case *ast.Ident:
		if v, ok := r.info().Uses[x].(*types.Var); ok && r.shared[v] {
			return v, r.objLoc(v)
		}
	case *ast.SelectorExpr:
		if sel, ok := r.info().Selections[x]; ok && sel.Kind() == types.FieldVal {
			if root, p := r.rootAndPath(x.X); root != nil {
				return root, p + "." + x.Sel.Name
			}
		}
	case *ast.StarExpr:
		if root, p := r.rootAndPath(x.X); root != nil {
			return root, p + ".*"
		}
	}
	return nil, ""
}

var gcSizes = types.SizesFor("gc", "amd64")

// heapPath recognises x.f1...fn (fields only, any variable x that is not itself a tracked root) with at
// least one pointer indirection on the way: memory that lives behind a pointer and can therefore be
// reached by several threads (struct fields of a *Session, a *TNC, ...). It returns the location
// name "Type.field" and the prefixes that are read on the way. Locations are identified by address.
func (r *rewriter) heapPath(e ast.Expr) (loc string, prefixes []ast.Expr, ok bool) {
	x, isSel := unparen(e).(*ast.SelectorExpr)
	if !isSel {
		return "", nil, false
	}
	sel, isField := r.info().Selections[x]
	if !isField || sel.Kind() != types.FieldVal {
		return "", nil, false
	}
	if t := r.info().TypeOf(x); t == nil || gcSizes.Sizeof(t) == 0 {
		return "", nil, false // zero-size fields share their address with a neighbour
	}
	indirect := false
	cur := ast.Expr(x)
	for {
		switch y := unparen(cur).(type) {
		case *ast.SelectorExpr:
			sl, isF := r.info().Selections[y]
			if !isF || sl.Kind() != types.FieldVal {
				return "", nil, false
			}
			if sl.Indirect() {
				indirect = true
			}
			if y != x {
				// a prefix is read only where a pointer stored in it is loaded (a struct-valued field
				// on the way is mere address arithmetic)
				if _, isPtr := r.info().TypeOf(y).Underlying().(*types.Pointer); isPtr {
					if _, _, pok := r.heapPath(y); pok {
						prefixes = append(prefixes, y)
					}
				}
			}
			cur = y.X
			continue
		case *ast.StarExpr:
			indirect = true
			cur = y.X
			continue
		case *ast.Ident:
			v, isVar := r.info().Uses[y].(*types.Var)
			if !isVar || v.IsField() || r.shared[v] {
				return "", nil, false
			}
		default:
			return "", nil, false
		}
		break
	}
	if !indirect {
		return "", nil, false
	}
	bt := r.info().TypeOf(x.X)
	if p, isPtr := bt.Underlying().(*types.Pointer); isPtr {
		bt = p.Elem()
	}
	name := types.TypeString(bt, func(*types.Package) string { return "" })
	if len(name) > 40 {
		name = "struct"
	}
	return name + "." + x.Sel.Name, prefixes, true
}

// safePtr is the address of a heap path, nil if a pointer on the way is nil (the instrumentation
// is hoisted in front of the statement and must not introduce a nil dereference of its own).
func (r *rewriter) safePtr(e ast.Expr) string {
	return "vs.P(func() unsafe.Pointer { return " + r.memPtr(e) + " })"
}

// heapAccess appends the accesses of evaluating (write: assigning to) the heap path e.
func (r *rewriter) heapAccess(e ast.Expr, write bool, acc *[]access) bool {
	loc, prefixes, ok := r.heapPath(e)
	if !ok {
		return false
	}
	for _, p := range prefixes {
		pl, _, _ := r.heapPath(p)
		*acc = append(*acc, mkAccess(pl, false, r.safePtr(unparen(p))))
	}
	*acc = append(*acc, mkAccess(loc, write, r.safePtr(unparen(e))))
	return true
}

// collect gathers the accesses made by evaluating e (not descending into function literals, not
// into the right operand of && and ||, which is not always evaluated, and not into &x.f, which
// does not access x.f).
func (r *rewriter) collect(e ast.Node, acc *[]access) {
	if e == nil {
		return
	}
	ast.Inspect(e, func(n ast.Node) bool {
		switch x := n.(type) {
		case *ast.FuncLit:
			return false
		case *ast.BinaryExpr:
			if x.Op == token.LAND || x.Op == token.LOR {
				r.collect(x.X, acc)
				// the right operand is evaluated only sometimes: its accesses are recorded when it is
				// (x && y  becomes  x && vs.AV(y, accesses of y...))
				if b, ok := r.info().TypeOf(x).Underlying().(*types.Basic); ok && b.Info()&types.IsBoolean != 0 && !r.skipAccess[x] {
					if _, named := r.info().TypeOf(x).(*types.Named); !named {
						r.skipAccess[x] = true
						var sub []access
						r.collect(x.Y, &sub)
						if len(sub) > 0 {
							args := []ast.Expr{x.Y}
							for _, a := range sub {
								suffix := ":r"
								if a.write {
									suffix = ":w"
								}
								r.needUnsafe = r.needUnsafe || strings.Contains(a.ptr, "unsafe.")
								args = append(args, call(r.vsSel("A"), ast.NewIdent(a.ptr), str(a.loc+"@"+r.site(x.Pos())+suffix)))
							}
							w := call(r.vsSel("AV"), args...)
							r.skipAccess[w] = true
							x.Y = w
						}
					}
				}
				return false
			}
		case *ast.UnaryExpr:
			if x.Op == token.AND {
				switch unparen(x.X).(type) {
				case *ast.SelectorExpr, *ast.Ident:
					return false
				}
			}
		case *ast.CallExpr:
			if r.skipAccess[x] {
				return false // our own wrapper around a guarded operand
			}
			if se, ok := x.Fun.(*ast.SelectorExpr); ok {
				if sel, ok := r.info().Selections[se]; ok && sel.Kind() == types.MethodVal {
					if _, _, isHeap := r.heapPath(se.X); isHeap {
						if cn := containerName(r.info().TypeOf(se.X)); cn != "" {
							loc, _, _ := r.heapPath(se.X)
							*acc = append(*acc, mkAccess(loc+"#obj", !containerRO[cn][se.Sel.Name], "vs.P(func() unsafe.Pointer { return "+r.objPtr(se.X)+" })"))
						}
						r.heapAccess(se.X, false, acc)
						for _, a := range x.Args {
							r.collect(a, acc)
						}
						return false
					}
					if root, p := r.rootAndPath(se.X); root != nil {
						if cn := containerName(r.info().TypeOf(se.X)); cn != "" {
							*acc = append(*acc, mkAccess(p+"#obj", !containerRO[cn][se.Sel.Name], r.objPtr(se.X)))
						}
						*acc = append(*acc, mkAccess(p, false, r.memPtr(se.X)))
						for _, a := range x.Args {
							r.collect(a, acc)
						}
						return false
					}
				}
			}
			if len(x.Args) == 2 && r.isBuiltin(x.Fun, "delete") {
				if root, p := r.rootAndPath(x.Args[0]); root != nil {
					*acc = append(*acc, mkAccess(p, true, r.memPtr(x.Args[0])))
				} else if loc, _, ok := r.heapPath(x.Args[0]); ok {
					*acc = append(*acc, mkAccess(loc, true, r.safePtr(unparen(x.Args[0]))))
				}
			}
		case *ast.SelectorExpr:
			if root, p := r.rootAndPath(x); root != nil {
				*acc = append(*acc, mkAccess(p, false, r.memPtr(x)))
				return false
			}
			if r.heapAccess(x, false, acc) {
				return false
			}
		case *ast.Ident:
			if root, p := r.rootAndPath(x); root != nil {
				*acc = append(*acc, mkAccess(p, false, r.memPtr(x)))
			}
		}
		return true
	})
}

// wrapCond returns cond, or vs.AV(cond, its accesses...) if evaluating it touches shared locations.
func (r *rewriter) wrapCond(cond ast.Expr) ast.Expr {
	if cond == nil || r.skipAccess[cond] {
		return cond
	}
	var sub []access
	r.collect(cond, &sub)
	if len(sub) == 0 {
		return cond
	}
	args := []ast.Expr{cond}
	for _, a := range sub {
		suffix := ":r"
		if a.write {
			suffix = ":w"
		}
		r.needUnsafe = r.needUnsafe || strings.Contains(a.ptr, "unsafe.")
		args = append(args, call(r.vsSel("A"), ast.NewIdent(a.ptr), str(a.loc+"@"+r.site(cond.Pos())+suffix)))
	}
	w := call(r.vsSel("AV"), args...)
	r.skipAccess[w] = true
	return w
}

func (r *rewriter) lhsAccess(l ast.Expr, acc *[]access) {
	switch x := unparen(l).(type) {
	case *ast.IndexExpr:
		// assigning to a map element writes the map object; assigning to a slice or array element
		// only reads the variable holding it (elements are not tracked: two threads may own
		// different elements)
		_, isMap := r.info().TypeOf(x.X).Underlying().(*types.Map)
		if root, p := r.rootAndPath(x.X); root != nil {
			*acc = append(*acc, mkAccess(p, isMap, r.memPtr(x.X)))
		} else if loc, _, ok := r.heapPath(x.X); ok && isMap {
			*acc = append(*acc, mkAccess(loc, true, r.safePtr(unparen(x.X))))
		} else {
			r.collect(x.X, acc)
		}
		r.collect(x.Index, acc)
	default:
		if root, p := r.rootAndPath(l); root != nil {
			*acc = append(*acc, mkAccess(p, true, r.memPtr(unparen(l))))
			// the base pointer/struct is read
			if se, ok := unparen(l).(*ast.SelectorExpr); ok {
				if _, bp := r.rootAndPath(se.X); bp != "" && bp != p {
					_ = bp
				}
			}
		} else if !r.heapAccess(l, true, acc) {
			r.collect(l, acc)
		}
	}
}

func (r *rewriter) stmtAccesses(s ast.Stmt) []access {
	var acc []access
	switch x := s.(type) {
	case *ast.ExprStmt:
		r.collect(x.X, &acc)
	case *ast.AssignStmt:
		sync := false
		for _, e := range x.Rhs {
			r.collect(e, &acc)
			sync = sync || r.maySync(e)
		}
		for _, l := range x.Lhs {
			if x.Tok == token.DEFINE {
				continue
			}
			n := len(acc)
			r.lhsAccess(l, &acc)
			for i := n; i < len(acc); i++ {
				acc[i].after = sync && acc[i].write
			}
			if x.Tok != token.ASSIGN { // += etc. also read
				r.collect(l, &acc)
			}
		}
	case *ast.IncDecStmt:
		r.lhsAccess(x.X, &acc)
	case *ast.ReturnStmt:
		for _, e := range x.Results {
			r.collect(e, &acc)
		}
	case *ast.SendStmt:
		r.collect(x.Chan, &acc)
		r.collect(x.Value, &acc)
	case *ast.DeclStmt:
		r.collect(x.Decl, &acc)
	case *ast.DeferStmt:
		for _, a := range x.Call.Args {
			r.collect(a, &acc)
		}
	case *ast.IfStmt:
		if x.Init == nil {
			r.collect(x.Cond, &acc)
		} else {
			// the init statement runs exactly once, right before the condition: its accesses are
			// hoisted in front of the if; the condition's are recorded when it is evaluated
			for _, a := range r.stmtAccesses(x.Init) {
				if !a.after {
					acc = append(acc, a)
				}
			}
			x.Cond = r.wrapCond(x.Cond)
		}
		// else-if chains: the inner statements are not members of a statement list
		for e, ok := x.Else.(*ast.IfStmt); ok; e, ok = e.Else.(*ast.IfStmt) {
			e.Cond = r.wrapCond(e.Cond)
		}
	case *ast.SwitchStmt:
		if x.Init == nil {
			r.collect(x.Tag, &acc)
		}
	case *ast.RangeStmt:
		r.collect(x.X, &acc)
	}
	// dedupe
	seen := map[access]bool{}
	var out []access
	for _, a := range acc {
		if !seen[a] {
			seen[a] = true
			out = append(out, a)
		}
	}
	sort.Slice(out, func(i, j int) bool {
		if out[i].loc != out[j].loc {
			return out[i].loc < out[j].loc
		}
		return !out[i].write && out[j].write
	})
	return out
}

func (r *rewriter) accessStmt(a access, site string) ast.Stmt {
	w := "false"
	if a.write {
		w = "true"
	}
	r.needUnsafe = r.needUnsafe || strings.Contains(a.ptr, "unsafe.")
	return &ast.ExprStmt{X: call(r.vsSel("Access"), ast.NewIdent(a.ptr), str(a.loc), ast.NewIdent(w), str(site))}
}

func (r *rewriter) instrumentList(list []ast.Stmt) []ast.Stmt {
	var out []ast.Stmt
	for _, s := range list {
		accs := r.stmtAccesses(s)
		for _, a := range accs {
			if !a.after {
				out = append(out, r.accessStmt(a, r.site(s.Pos())))
			}
		}
		// a for-loop condition is re-evaluated every iteration
		if f, ok := s.(*ast.ForStmt); ok && f.Cond != nil {
			var acc []access
			r.collect(f.Cond, &acc)
			if len(acc) > 0 {
				args := []ast.Expr{f.Cond}
				for _, a := range acc {
					suffix := ":r"
					if a.write {
						suffix = ":w"
					}
					r.needUnsafe = r.needUnsafe || strings.Contains(a.ptr, "unsafe.")
					args = append(args, call(r.vsSel("A"), ast.NewIdent(a.ptr), str(a.loc+"@"+r.site(f.Pos())+suffix)))
				}
				f.Cond = call(r.vsSel("AV"), args...)
			}
		}
		out = append(out, s)
		for _, a := range accs {
			if a.after {
				out = append(out, r.accessStmt(a, r.site(s.Pos())))
			}
		}
	}
	return out
}

func (r *rewriter) instrumentAccess() {
	// precompute facts that need pristine type information
	r.chanArg = map[*ast.CallExpr]bool{}
	r.chanRange = map[*ast.RangeStmt]bool{}
	r.constArg = map[ast.Expr]bool{}
	r.goFunTypes = map[*ast.GoStmt]*types.Signature{}
	ast.Inspect(r.file, func(n ast.Node) bool {
		switch x := n.(type) {
		case *ast.CallExpr:
			if len(x.Args) == 1 && (r.isBuiltin(x.Fun, "close") || r.isBuiltin(x.Fun, "len") || r.isBuiltin(x.Fun, "cap")) && r.isChan(x.Args[0]) {
				r.chanArg[x] = true
			}
		case *ast.RangeStmt:
			if r.isChan(x.X) {
				r.chanRange[x] = true
			}
		case *ast.GoStmt:
			for _, a := range x.Call.Args {
				if tv, ok := r.info().Types[a]; ok && (tv.Value != nil || tv.IsNil()) {
					r.constArg[a] = true
				}
			}
		case *ast.SendStmt:
			if tv, ok := r.info().Types[x.Value]; ok && (tv.Value != nil || tv.IsNil()) {
				r.constArg[x.Value] = true
			}
		}
		return true
	})
	ast.Inspect(r.file, func(n ast.Node) bool {
		switch x := n.(type) {
		case *ast.BlockStmt:
			x.List = r.instrumentList(x.List)
		case *ast.CaseClause:
			x.Body = r.instrumentList(x.Body)
		case *ast.CommClause:
			x.Body = r.instrumentList(x.Body)
		}
		return true
	})
}
