// Package core is the shared plumbing of every check: tier/seed handling, violation
// classification against the committed known-findings file, replay artefacts, evidence output.
package core

import (
	"crypto/sha256"
	"encoding/hex"
	"encoding/json"
	"fmt"
	"os"
	"path/filepath"
	"runtime"
	"sort"
	"strconv"
	"strings"
	"sync"
	"sync/atomic"
	"time"
)

// Root is the verification tree the running check belongs to (/verif, or a snapshot of it).
var Root = func() string {
	if r := os.Getenv("VERIF_ROOT"); r != "" {
		return r
	}
	return "/verif"
}()

// Repo is the tree under test: /repo, or (VERIF_REPO) a snapshot of it used by background sweeps so
// that they are not disturbed by seeded changes being applied to /repo. The check script writes an
// alternative go.mod whose replace directive points there.
var Repo = func() string {
	if r := os.Getenv("VERIF_REPO"); r != "" {
		return r
	}
	return "/repo"
}()

// GoEnv is the environment for go commands run by the machinery.
func GoEnv() []string {
	flags := "GOFLAGS=-mod=mod"
	if Repo != "/repo" {
		flags += " -modfile=" + filepath.Join(Root, ".cache", "alt", "go.mod")
	}
	return append(os.Environ(), flags, "GOPROXY=off")
}

type Finding struct {
	Property  string `json:"property"`
	Signature string `json:"signature"`
	Status    string `json:"status"` // "open" | "fixed"
	Commit    string `json:"commit,omitempty"`
	What      string `json:"what"`
}

type Run struct {
	ID    string
	Tier  string
	Seed  int
	Level string
	start time.Time

	mu         sync.Mutex
	findings   []Finding
	knownSeen  map[string]int
	violations map[string]int // signature -> count
	violFirst  map[string]string
	samples    []any
	sampleN    int
	distinct   map[string]struct{}
	Evals      atomic.Int64
	Nontrivial atomic.Int64
	Caps       []string
	notes      []string

	child         *childState
	added         map[string]int64
	keys          map[string]struct{}
	distinctExtra int
	watching      atomic.Bool
	watchTicks    atomic.Int64
}

func Begin(id, level string, args []string) *Run {
	r := &Run{ID: id, Level: level, start: time.Now(), knownSeen: map[string]int{}, violations: map[string]int{}, violFirst: map[string]string{}, distinct: map[string]struct{}{}}
	r.Tier = "quick"
	if t := os.Getenv("VERIF_TIER"); t == "thorough" || t == "quick" {
		r.Tier = t
	}
	for _, a := range args {
		if a == "quick" || a == "thorough" {
			r.Tier = a
		}
	}
	if s := os.Getenv("VERIF_SEED"); s != "" {
		r.Seed, _ = strconv.Atoi(s)
	}
	r.child = parseShard(args)
	b, err := os.ReadFile(filepath.Join(Root, "known_findings.json"))
	if err == nil {
		var all []Finding
		if err := json.Unmarshal(b, &all); err != nil {
			Infra("known_findings.json: %v", err)
		}
		for _, f := range all {
			if f.Property == id {
				r.findings = append(r.findings, f)
			}
		}
	}
	return r
}

func (r *Run) Thorough() bool { return r.Tier == "thorough" }

// WatchProgress arms a process-level watchdog for checks that run the code under test inside this
// process (no worker isolation): if neither an evaluation nor a heartbeat has happened for d, a
// goroutine of the code under test is spinning (a blocked one would have been reported by the
// harness). The goroutine dump names the function; the check reports `<id>|no-progress|<function>`
// and ends with what it has. If no goroutine is inside the library the harness itself is stuck: that
// is an infrastructure error, not a verdict. StopWatch disarms it (before waiting for a foreign part).
func (r *Run) WatchProgress(d time.Duration) {
	if r.child != nil || r.watching.Swap(true) {
		return
	}
	go func() {
		last, since := int64(-1), time.Now()
		for r.watching.Load() {
			time.Sleep(2 * time.Second)
			cur := r.Evals.Load() + r.watchTicks.Load()
			if cur != last {
				last, since = cur, time.Now()
				continue
			}
			if time.Since(since) < d || !r.watching.Load() {
				continue
			}
			buf := make([]byte, 8<<20)
			dump := string(buf[:runtime.Stack(buf, true)])
			site := spinSite(dump)
			if site == "?" {
				Infra("%s: no evaluation for %v and no goroutine inside the code under test:\n%s", r.ID, d, Trunc(dump, 6000))
			}
			r.Violation(r.ID+"|no-progress|"+site, fmt.Sprintf("no evaluation completed for %v; a goroutine is running inside %s (a call that never returns)", d, site), map[string]any{"goroutines": Trunc(dump, 20000)})
			r.Cap("aborted by the no-progress watchdog after %d evaluations", r.Evals.Load())
			n := r.Evals.Load()
			r.Finish(Coverage{"states": n, "transitions": n, "traces_validated_against_impl": n, "rule": "aborted by the no-progress watchdog; counts are the evaluations completed before"}, nil)
		}
	}()
}

// Tick tells the no-progress watchdog that work is going on although no evaluation has finished.
func (r *Run) Tick() { r.watchTicks.Add(1) }

func (r *Run) StopWatch() { r.watching.Store(false) }

// spinSite is the innermost function of the code under test in a running or runnable goroutine.
func spinSite(dump string) string {
	for _, g := range strings.Split(dump, "\n\n") {
		head, _, _ := strings.Cut(g, "\n")
		if !strings.Contains(head, "[running") && !strings.Contains(head, "[runnable") {
			continue
		}
		for _, ln := range strings.Split(g, "\n") {
			if strings.HasPrefix(ln, "\t") {
				continue
			}
			if i := strings.Index(ln, "la5nta/wl2k-go/"); i >= 0 {
				fn := ln[i+len("la5nta/wl2k-go/"):]
				if j := strings.LastIndex(fn, "("); j > 0 {
					fn = fn[:j]
				}
				return fn
			}
		}
	}
	return "?"
}

// Infra reports an infrastructure failure (never a VIOLATION) and exits 2.
func Infra(format string, a ...any) {
	fmt.Printf("INFRASTRUCTURE-ERROR: "+format+"\n", a...)
	fmt.Fprintf(os.Stderr, "INFRASTRUCTURE-ERROR: "+format+"\n", a...)
	os.Exit(2)
}

// Note adds a free-text line to the evidence.
func (r *Run) Note(format string, a ...any) {
	r.mu.Lock()
	r.notes = append(r.notes, fmt.Sprintf(format, a...))
	r.mu.Unlock()
}

func (r *Run) Cap(format string, a ...any) {
	r.mu.Lock()
	r.Caps = append(r.Caps, fmt.Sprintf(format, a...))
	r.mu.Unlock()
}

// Known tells whether sig is an open known finding (without recording anything).
func (r *Run) Known(sig string) bool {
	for _, f := range r.findings {
		if f.Status == "open" && f.Signature == sig {
			return true
		}
	}
	return false
}

// Violation records one violating case. sig is the specific signature (oracle clause + site /
// input class); what is a human description; replay is the case written out for re-execution.
// Returns true if it is an open known finding.
func (r *Run) Violation(sig, what string, replay any) bool {
	r.mu.Lock()
	defer r.mu.Unlock()
	if r.child != nil {
		r.childViolation(sig, what, replay)
		return r.knownOpenLocked(sig)
	}
	if r.knownOpenLocked(sig) {
		r.knownSeen[sig]++
		return true
	}
	r.violations[sig]++
	if r.violations[sig] == 1 {
		h := sha256.Sum256([]byte(sig))
		dir := filepath.Join(Root, "replays", r.ID)
		os.MkdirAll(dir, 0o755)
		p := filepath.Join(dir, hex.EncodeToString(h[:6])+".json")
		b, _ := json.MarshalIndent(map[string]any{"property": r.ID, "signature": sig, "what": what, "case": replay}, "", " ")
		os.WriteFile(p, b, 0o644)
		r.violFirst[sig] = p
		fmt.Printf("VIOLATION property=%s replay=%s\n  signature: %s\n  what: %s\n", r.ID, p, sig, what)
	}
	return false
}

func (r *Run) knownOpenLocked(sig string) bool {
	for _, f := range r.findings {
		if f.Status == "open" && f.Signature == sig {
			return true
		}
	}
	return false
}

// Sample keeps a few of the explored cases for the evidence (rotated by seed, not a deciding step).
func (r *Run) Sample(x any) {
	r.mu.Lock()
	r.sampleN++
	n := r.sampleN
	if len(r.samples) < 6 {
		r.samples = append(r.samples, x)
	} else if (n+r.Seed)%(997) == 0 {
		r.samples[(n/997+r.Seed)%6] = x
	}
	r.mu.Unlock()
}

// Distinct counts a key towards distinct_nontrivial.
func (r *Run) Distinct(key string) {
	r.mu.Lock()
	r.distinct[key] = struct{}{}
	r.mu.Unlock()
}

func (r *Run) DistinctN() int {
	r.mu.Lock()
	defer r.mu.Unlock()
	return len(r.distinct) + r.distinctExtra
}

type Coverage map[string]any

// Finish writes the evidence file, prints the verdict and exits.
func (r *Run) Finish(cov Coverage, assumptions []string) {
	if r.child != nil {
		r.childFinish()
	}
	wall := time.Since(r.start).Seconds()
	r.mu.Lock()
	if cov == nil {
		cov = Coverage{}
	}
	if _, ok := cov["evaluations"]; !ok {
		cov["evaluations"] = r.Evals.Load()
	}
	if _, ok := cov["distinct_nontrivial"]; !ok {
		n := int64(len(r.distinct) + r.distinctExtra)
		if n == 0 {
			n = r.Nontrivial.Load()
		}
		cov["distinct_nontrivial"] = n
	}
	if _, ok := cov["samples"]; !ok {
		cov["samples"] = r.samples
	}
	if _, ok := cov["exhaustive"]; !ok {
		cov["exhaustive"] = len(r.Caps) == 0
	}
	cov["caps_hit"] = r.Caps
	if len(r.notes) > 0 {
		cov["notes"] = r.notes
	}
	ks := map[string]int{}
	for k, v := range r.knownSeen {
		ks[k] = v
	}
	cov["known_findings_seen"] = ks
	nviol := 0
	vs := map[string]int{}
	for k, v := range r.violations {
		nviol += v
		vs[k] = v
	}
	if len(vs) > 0 {
		cov["violation_signatures"] = vs
	}
	ev := map[string]any{
		"property_id": r.ID, "tier": r.Tier, "seed": r.Seed, "level": r.Level,
		"coverage": cov, "assumptions": assumptions, "wall_s": wall, "violations": nviol,
	}
	b, err := json.MarshalIndent(ev, "", " ")
	if err != nil {
		Infra("evidence marshal: %v", err)
	}
	os.MkdirAll(filepath.Join(Root, "evidence"), 0o755)
	if err := os.WriteFile(filepath.Join(Root, "evidence", r.ID+".json"), b, 0o644); err != nil {
		Infra("evidence write: %v", err)
	}
	var sigs []string
	for s := range r.knownSeen {
		sigs = append(sigs, s)
	}
	sort.Strings(sigs)
	for _, s := range sigs {
		what := ""
		for _, f := range r.findings {
			if f.Signature == s {
				what = f.What
			}
		}
		fmt.Printf("KNOWN-FINDING: property=%s %s [%s] (%d cases)\n", r.ID, what, s, r.knownSeen[s])
	}
	ex := cov["exhaustive"]
	fmt.Printf("%s %s: evaluations=%v distinct_nontrivial=%v states=%v transitions=%v exhaustive=%v violations=%d wall=%.1fs\n",
		r.ID, r.Tier, cov["evaluations"], cov["distinct_nontrivial"], cov["states"], cov["transitions"], ex, nviol, wall)
	r.mu.Unlock()
	if nviol > 0 {
		os.Exit(1)
	}
	os.Exit(0)
}

// ParallelFor runs f(i) for i in [0,n) on all cores. f must be goroutine-safe.
func ParallelFor(n int, f func(i int)) {
	w := runtime.NumCPU()
	if w > n {
		w = n
	}
	if w < 1 {
		w = 1
	}
	var next atomic.Int64
	var wg sync.WaitGroup
	for k := 0; k < w; k++ {
		wg.Add(1)
		go func() {
			defer wg.Done()
			for {
				i := int(next.Add(1) - 1)
				if i >= n {
					return
				}
				f(i)
			}
		}()
	}
	wg.Wait()
}

// Catch runs f and returns a description of a panic, if any ("" otherwise), with the panic site.
func Catch(f func()) (msg string, site string) {
	defer func() {
		if e := recover(); e != nil {
			msg = fmt.Sprint(e)
			site = PanicSite()
		}
	}()
	f()
	return
}

// PanicSite returns the innermost frame inside the repository under test, line-independent
// (function name), to be used in signatures. Must be called from the deferred function.
func PanicSite() string {
	pcs := make([]uintptr, 64)
	n := runtime.Callers(2, pcs)
	fr := runtime.CallersFrames(pcs[:n])
	for {
		f, more := fr.Next()
		if strings.Contains(f.Function, "la5nta/wl2k-go") {
			fn := f.Function[strings.Index(f.Function, "wl2k-go/")+len("wl2k-go/"):]
			return fn
		}
		if !more {
			break
		}
	}
	return "?"
}

// Trunc shortens a string for messages.
func Trunc(s string, n int) string {
	if len(s) <= n {
		return s
	}
	return s[:n] + fmt.Sprintf("…(+%d)", len(s)-n)
}
