package core

import (
	"bufio"
	"encoding/binary"
	"encoding/json"
	"fmt"
	"io"
	"os"
	"os/exec"
	"runtime"
	"strconv"
	"strings"
	"sync"
	"syscall"
	"time"
)

// Supervisor: a check whose cases must run in isolated single-threaded worker processes (process
// globals such as GZIP_EXPERIMENT, code that may kill the process or spin) enumerates its cases
// as indices [0,n) and calls Sharded. The parent forks workers of the same binary; each worker
// runs the indices of its shard sequentially, writing the index in flight to a progress file so
// that a death or a stall is attributed to exactly one case.

type ShardOpts struct {
	Workers   int           // default: NumCPU
	Watchdog  time.Duration // a case in flight longer than this is a stall (0 = 60s)
	MemLimit  uint64        // address-space limit per worker in bytes (0 = none)
	ExtraArgs []string
	bin       string
	idArg     string
	// ExtraArgsNow, if set, supplies additional worker arguments each time a worker is (re)started.
	ExtraArgsNow func() []string
	// WatchdogNow, if set, overrides Watchdog each time a worker is (re)started.
	WatchdogNow func() time.Duration
	// OnDeath is called in the parent when a worker died (or stalled) while case i was in flight.
	// kind is "exit", "stall"; stderrTail is the end of the worker's stderr.
	OnDeath func(i int, kind string, stderrTail string)
	// OnDeathDetail, if set, is called instead of OnDeath with what the worker last recorded by InFlight.
	OnDeathDetail func(i int, kind string, stderrTail string, detail []byte)
	detailOut     *[]byte
	// Abort, if set, is asked before a worker is (re)started: true ends that worker's share (the
	// caller reports the cap). Used once a check has seen enough hangs to have failed anyway.
	Abort func() bool
}

type shardMsg struct {
	T      string           `json:"t"`
	Sig    string           `json:"sig,omitempty"`
	What   string           `json:"what,omitempty"`
	Replay json.RawMessage  `json:"replay,omitempty"`
	Count  int              `json:"count,omitempty"`
	Evals  int64            `json:"evals,omitempty"`
	NonTr  int64            `json:"nontrivial,omitempty"`
	Dist   int              `json:"distinct,omitempty"`
	Samp   []any            `json:"samples,omitempty"`
	Add    map[string]int64 `json:"add,omitempty"`
	Caps   []string         `json:"caps,omitempty"`
	Keys   []string         `json:"keys,omitempty"`
}

// child-side state
type childState struct {
	shard, of int
	resume    int
	only      int
	progress  *os.File
	lastBeat  time.Time
	beats     uint64
	viol      map[string]*shardMsg
	add       map[string]int64
	keys      map[string]struct{}
}

func parseShard(args []string) *childState {
	for i, a := range args {
		if a == "--shard" && i+1 < len(args) {
			var c childState
			c.only = -1
			parts := strings.Split(args[i+1], "/")
			c.shard, _ = strconv.Atoi(parts[0])
			c.of, _ = strconv.Atoi(parts[1])
			for j, b := range args {
				if b == "--resume" && j+1 < len(args) {
					c.resume, _ = strconv.Atoi(args[j+1])
				}
				if b == "--only" && j+1 < len(args) {
					c.only, _ = strconv.Atoi(args[j+1])
				}
				if b == "--progress" && j+1 < len(args) {
					c.progress, _ = os.OpenFile(args[j+1], os.O_RDWR|os.O_CREATE, 0o644)
				}
			}
			c.viol = map[string]*shardMsg{}
			c.add = map[string]int64{}
			c.keys = map[string]struct{}{}
			return &c
		}
	}
	return nil
}

// IsChild reports whether this process is a shard worker.
func (r *Run) IsChild() bool { return r.child != nil }

// Add accumulates an additive counter that is merged across workers.
func (r *Run) Add(key string, n int64) {
	r.mu.Lock()
	if r.child != nil {
		r.child.add[key] += n
	} else {
		if r.added == nil {
			r.added = map[string]int64{}
		}
		r.added[key] += n
	}
	r.mu.Unlock()
}

// Added returns the merged additive counters (parent side, after Sharded).
func (r *Run) Added() map[string]int64 {
	r.mu.Lock()
	defer r.mu.Unlock()
	out := map[string]int64{}
	for k, v := range r.added {
		out[k] = v
	}
	return out
}

// Key records an outcome key whose distinct set is merged across workers (keep these few).
func (r *Run) Key(k string) {
	r.mu.Lock()
	if r.child != nil {
		r.child.keys[k] = struct{}{}
	} else {
		if r.keys == nil {
			r.keys = map[string]struct{}{}
		}
		r.keys[k] = struct{}{}
	}
	r.mu.Unlock()
}

func (r *Run) Keys() []string {
	r.mu.Lock()
	defer r.mu.Unlock()
	var out []string
	for k := range r.keys {
		out = append(out, k)
	}
	return out
}

func (r *Run) childViolation(sig, what string, replay any) {
	c := r.child
	if v, ok := c.viol[sig]; ok {
		v.Count++
		return
	}
	b, _ := json.Marshal(replay)
	c.viol[sig] = &shardMsg{T: "viol", Sig: sig, What: what, Replay: b, Count: 1}
}

func (r *Run) childFinish() {
	w := bufio.NewWriter(os.Stdout)
	enc := json.NewEncoder(w)
	for _, v := range r.child.viol {
		enc.Encode(v)
	}
	var keys []string
	for k := range r.child.keys {
		keys = append(keys, k)
	}
	enc.Encode(shardMsg{T: "done", Evals: r.Evals.Load(), NonTr: r.Nontrivial.Load(), Dist: len(r.distinct), Samp: r.samples, Add: r.child.add, Caps: r.Caps, Keys: keys})
	w.Flush()
	os.Exit(0)
}

// Sharded runs runCase(i) for every i in [0,n) in worker processes (parent) or runs this worker's
// share (child; never returns in that case).
func (r *Run) Sharded(n int, runCase func(i int), opts ShardOpts) {
	if r.child != nil {
		c := r.child
		var buf [8]byte
		if c.only >= 0 {
			if c.progress != nil {
				binary.LittleEndian.PutUint64(buf[:], uint64(c.only)+1)
				c.progress.WriteAt(buf[:], 0)
			}
			runCase(c.only)
			r.childFinish()
		}
		for i := c.shard; i < n; i += c.of {
			if i < c.resume {
				continue
			}
			if c.progress != nil {
				binary.LittleEndian.PutUint64(buf[:], uint64(i)+1)
				c.progress.WriteAt(buf[:], 0)
			}
			runCase(i)
		}
		if c.progress != nil {
			binary.LittleEndian.PutUint64(buf[:], 0)
			c.progress.WriteAt(buf[:], 0)
		}
		r.childFinish()
	}
	workers := opts.Workers
	if workers <= 0 {
		workers = runtime.NumCPU()
	}
	if workers > n {
		workers = n
	}
	if workers < 1 {
		workers = 1
	}
	wd := opts.Watchdog
	if wd == 0 {
		wd = 60 * time.Second
	}
	dir, err := os.MkdirTemp("", "vshard")
	if err != nil {
		Infra("%v", err)
	}
	defer os.RemoveAll(dir)
	var wg sync.WaitGroup
	for k := 0; k < workers; k++ {
		wg.Add(1)
		go func(k int) {
			defer wg.Done()
			resume := 0
			for {
				w := wd
				if opts.WatchdogNow != nil {
					w = opts.WatchdogNow()
				}
				if opts.Abort != nil && opts.Abort() {
					return
				}
				var detail []byte
				o := opts
				o.detailOut = &detail
				died, at, kind, tail := r.runWorker(k, workers, resume, -1, dir, w, o)
				if !died {
					return
				}
				if opts.OnDeathDetail != nil {
					opts.OnDeathDetail(at, kind, tail, detail)
				} else if opts.OnDeath != nil {
					opts.OnDeath(at, kind, tail)
				} else if kind == "exit" && SiteFromTrace(tail) == "?" {
					Infra("worker died outside the code under test while case %d was in flight:\n%s", at, Trunc(tail, 1500))
				} else {
					r.Violation(fmt.Sprintf("%s|worker-%s", r.ID, kind), fmt.Sprintf("worker died (%s) while case %d was in flight: %s", kind, at, Trunc(tail, 400)), map[string]any{"case_index": at})
				}
				resume = at + 1
			}
		}(k)
	}
	wg.Wait()
}

// RunOne runs a single case index in a fresh worker (used to re-check stalls and deaths).
// Returns (died, kind, stderrTail).
func (r *Run) RunOne(i int, wd time.Duration, opts ShardOpts) (bool, string, string) {
	dir, _ := os.MkdirTemp("", "vshard1")
	defer os.RemoveAll(dir)
	died, _, kind, tail := r.runWorker(0, 1, 0, i, dir, wd, opts)
	return died, kind, tail
}

// RunForeign runs another binary's check as a single worker of this run (same protocol): its
// violations, counters and samples are merged into r. idArg is the check id the binary knows.
func (r *Run) RunForeign(bin, idArg string, extra []string, wd time.Duration) (died bool, kind, tail string) {
	dir, _ := os.MkdirTemp("", "vforeign")
	defer os.RemoveAll(dir)
	opts := ShardOpts{ExtraArgs: extra, bin: bin, idArg: idArg}
	died, _, kind, tail = r.runWorker(0, 1, 0, -1, dir, wd, opts)
	return
}

func (r *Run) runWorker(k, of, resume, only int, dir string, wd time.Duration, opts ShardOpts) (died bool, at int, kind, tail string) {
	prog := fmt.Sprintf("%s/p%d-%d", dir, k, time.Now().UnixNano())
	id, bin := r.ID, os.Args[0]
	if opts.bin != "" {
		id, bin = opts.idArg, opts.bin
	}
	args := []string{id, r.Tier, "--shard", fmt.Sprintf("%d/%d", k, of), "--resume", strconv.Itoa(resume), "--progress", prog}
	if only >= 0 {
		args = append(args, "--only", strconv.Itoa(only))
	}
	args = append(args, opts.ExtraArgs...)
	if opts.ExtraArgsNow != nil {
		args = append(args, opts.ExtraArgsNow()...)
	}
	cmd := exec.Command(bin, args...)
	cmd.Env = append(os.Environ(), "GOMAXPROCS=2", "GOGC=400", fmt.Sprintf("VERIF_SEED=%d", r.Seed))
	if opts.MemLimit > 0 {
		cmd.Env = append(cmd.Env, fmt.Sprintf("GOMEMLIMIT=%d", opts.MemLimit*3/4), fmt.Sprintf("VERIF_AS_LIMIT=%d", opts.MemLimit))
	}
	stdout, _ := cmd.StdoutPipe()
	stderr, _ := cmd.StderrPipe()
	if err := cmd.Start(); err != nil {
		Infra("cannot start worker: %v", err)
	}
	var errTail tailBuf
	var eg sync.WaitGroup
	eg.Add(2)
	go func() { defer eg.Done(); io.Copy(&errTail, stderr) }()
	gotDone := false
	go func() {
		defer eg.Done()
		sc := bufio.NewScanner(stdout)
		sc.Buffer(make([]byte, 1<<20), 64<<20)
		for sc.Scan() {
			var m shardMsg
			if json.Unmarshal(sc.Bytes(), &m) != nil {
				continue
			}
			switch m.T {
			case "viol":
				var rep any
				json.Unmarshal(m.Replay, &rep)
				for c := 0; c < m.Count; c++ {
					r.Violation(m.Sig, m.What, rep)
					if c > 0 && c > 2 {
						// count the rest without re-marshalling
						r.mu.Lock()
						if r.knownOpenLocked(m.Sig) {
							r.knownSeen[m.Sig] += m.Count - c - 1
						} else {
							r.violations[m.Sig] += m.Count - c - 1
						}
						r.mu.Unlock()
						break
					}
				}
			case "done":
				gotDone = true
				r.Evals.Add(m.Evals)
				r.Nontrivial.Add(m.NonTr)
				r.mu.Lock()
				r.distinctExtra += m.Dist
				for _, s := range m.Samp {
					if len(r.samples) < 8 {
						r.samples = append(r.samples, s)
					}
				}
				if r.added == nil {
					r.added = map[string]int64{}
				}
				for k, v := range m.Add {
					r.added[k] += v
				}
				if r.keys == nil {
					r.keys = map[string]struct{}{}
				}
				for _, k := range m.Keys {
					r.keys[k] = struct{}{}
				}
				r.Caps = append(r.Caps, m.Caps...)
				r.mu.Unlock()
			}
		}
	}()
	// watchdog on the progress file
	stall := make(chan int, 1)
	stop := make(chan struct{})
	go func() {
		last, lastBeat, since := int64(-1), int64(-1), time.Now()
		t := time.NewTicker(250 * time.Millisecond)
		defer t.Stop()
		for {
			select {
			case <-stop:
				return
			case <-t.C:
				cur, beat := readProgress(prog), readBeat(prog)
				if cur != last || beat != lastBeat {
					last, lastBeat, since = cur, beat, time.Now()
				} else if cur > 0 && time.Since(since) > wd {
					stall <- int(cur - 1)
					cmd.Process.Signal(syscall.SIGKILL)
					return
				}
			}
		}
	}()
	eg.Wait()
	werr := cmd.Wait()
	close(stop)
	select {
	case at = <-stall:
		if opts.detailOut != nil {
			*opts.detailOut = readDetail(prog)
		}
		return true, at, "stall", errTail.String()
	default:
	}
	if werr != nil || !gotDone {
		cur := readProgress(prog)
		if cur == 0 {
			if opts.bin != "" {
				return true, -1, "exit", errTail.String()
			}
			Infra("worker %d failed outside any case: %v: %s", k, werr, errTail.String())
		}
		if opts.detailOut != nil {
			*opts.detailOut = readDetail(prog)
		}
		return true, int(cur - 1), "exit", errTail.String()
	}
	return false, 0, "", ""
}

// Heartbeat tells the watchdog that the case in flight is making progress (explorations of many
// executions per case call it once per execution; at most one write per 200 ms). A case that
// neither finishes nor beats for the watchdog period is a stall.
func (r *Run) Heartbeat() {
	c := r.child
	if c == nil || c.progress == nil {
		return
	}
	if now := time.Now(); now.Sub(c.lastBeat) > 200*time.Millisecond {
		c.lastBeat = now
		c.beats++
		var buf [8]byte
		binary.LittleEndian.PutUint64(buf[:], c.beats)
		c.progress.WriteAt(buf[:], 8)
	}
}

// InFlight records (in the progress file) what the case in flight is working on right now, so that
// a stall or death inside a case that covers many inputs can be attributed to one of them. The
// parent hands the bytes to ShardOpts.OnDeathDetail. Also counts as a heartbeat.
func (r *Run) InFlight(detail []byte) {
	c := r.child
	if c == nil || c.progress == nil {
		return
	}
	if len(detail) > 1<<20 {
		detail = detail[:1<<20]
	}
	buf := make([]byte, 4+len(detail))
	binary.LittleEndian.PutUint32(buf, uint32(len(detail)))
	copy(buf[4:], detail)
	c.progress.WriteAt(buf, 16)
	r.Heartbeat()
}

func readDetail(path string) []byte {
	b, err := os.ReadFile(path)
	if err != nil || len(b) < 20 {
		return nil
	}
	n := int(binary.LittleEndian.Uint32(b[16:]))
	if n > len(b)-20 {
		n = len(b) - 20
	}
	return b[20 : 20+n]
}

// readBeat is the heartbeat counter of the progress file.
func readBeat(path string) int64 {
	b, err := os.ReadFile(path)
	if err != nil || len(b) < 16 {
		return 0
	}
	return int64(binary.LittleEndian.Uint64(b[8:]))
}

func readProgress(path string) int64 {
	b, err := os.ReadFile(path)
	if err != nil || len(b) < 8 {
		return 0
	}
	return int64(binary.LittleEndian.Uint64(b))
}

type tailBuf struct {
	mu sync.Mutex
	b  []byte
}

func (t *tailBuf) Write(p []byte) (int, error) {
	t.mu.Lock()
	t.b = append(t.b, p...)
	if len(t.b) > 16384 {
		// keep head (panic message) and tail
		t.b = append(t.b[:8192], t.b[len(t.b)-8192:]...)
	}
	t.mu.Unlock()
	return len(p), nil
}

func (t *tailBuf) String() string { t.mu.Lock(); defer t.mu.Unlock(); return string(t.b) }

// ApplyASLimit applies the address-space limit requested by the parent (call early in main).
func ApplyASLimit() {
	if s := os.Getenv("VERIF_AS_LIMIT"); s != "" {
		if v, err := strconv.ParseUint(s, 10, 64); err == nil && v > 0 {
			syscall.Setrlimit(syscall.RLIMIT_AS, &syscall.Rlimit{Cur: v, Max: v})
		}
	}
}

// SiteFromTrace extracts the innermost wl2k-go function from a goroutine trace (line independent).
func SiteFromTrace(trace string) string {
	lines := strings.Split(trace, "\n")
	start := 0
	for i, ln := range lines {
		if strings.HasPrefix(ln, "panic(") || strings.Contains(ln, "[running]") {
			start = i
			break
		}
	}
	for _, ln := range lines[start:] {
		if strings.HasPrefix(ln, "\t") {
			continue
		}
		if i := strings.Index(ln, "la5nta/wl2k-go/"); i >= 0 {
			fn := ln[i+len("la5nta/wl2k-go/"):]
			if j := strings.LastIndex(fn, "("); j > 0 {
				fn = fn[:j]
			}
			return fn
		}
	}
	return "?"
}
