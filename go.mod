module verif

go 1.24.0

require (
	github.com/anishathalye/porcupine v1.3.0
	github.com/la5nta/wl2k-go v0.0.0
	golang.org/x/tools v0.29.0
)

require (
	github.com/paulrosania/go-charset v0.0.0-20190326053356-55c9d7a5834c // indirect
	golang.org/x/mod v0.22.0 // indirect
	golang.org/x/sync v0.10.0 // indirect
)

replace github.com/la5nta/wl2k-go => /repo
