package gprops

import (
	"bytes"
	"crypto/sha256"
	"fmt"
	"os"
	"os/exec"
	"path/filepath"
	"regexp"
	"sort"
	"strings"
	"time"

	"github.com/la5nta/wl2k-go/fbb"
	"github.com/la5nta/wl2k-go/mailbox"

	"verif/core"
	"verif/vfs"
)

func init() { Registry["C11"] = C11 }

var c11Date = time.Date(2021, 5, 6, 7, 8, 0, 0, time.UTC)

func c11Msg(mid string, size int, p2p bool) *fbb.Message {
	m := fbb.NewMessage(fbb.Private, "N0SRC")
	m.Header.Set("Mid", mid)
	m.SetDate(c11Date)
	m.AddTo("N0DST")
	m.SetSubject("subject " + mid)
	body := "body of " + mid + "\r\n"
	switch size {
	case 1:
		body = strings.Repeat("0123456789 abcdefghij klmnopqrst\r\n", 30)
	case 2:
		body = strings.Repeat("0123456789 abcdefghij klmnopqrst\r\n", 100)
	}
	m.SetBody(body)
	if size == 2 {
		data := make([]byte, 1500)
		for i := range data {
			data[i] = byte(i * 7)
		}
		m.AddFile(fbb.NewFile("attachment.bin", data))
	}
	if p2p {
		m.Header.Set("X-P2POnly", "true")
	}
	return m
}

// a history = pre-population level + the interrupted operation
type c11Hist struct {
	Pre  int    `json:"pre"`
	Op   string `json:"op"`
	Size int    `json:"size"`
}

func (h c11Hist) String() string { return fmt.Sprintf("pre=%d %s size=%d", h.Pre, h.Op, h.Size) }

func c11Histories(thorough bool) []c11Hist {
	var hs []c11Hist
	sizes := []int{0, 1, 2}
	for pre := 0; pre <= 2; pre++ {
		for _, sz := range sizes {
			hs = append(hs, c11Hist{pre, "ProcessInbound-new", sz}, c11Hist{pre, "AddOut-new", sz})
		}
		if pre > 0 {
			hs = append(hs, c11Hist{pre, "ProcessInbound-existing", 0}, c11Hist{pre, "SetSent", 0}, c11Hist{pre, "SetSent-rejected", 0}, c11Hist{pre, "SetUnread-false", 0}, c11Hist{pre, "SetUnread-true", 0},
				c11Hist{pre, "AddOut-repost-of-sent", 0}, c11Hist{pre, "SetSent-p2ponly", 0}, c11Hist{pre, "ProcessInbound-two", 0})
		}
	}
	hs = append(hs, c11Hist{0, "Prepare-empty-dir", 0})
	// an identifier so long that only the final file name fits into NAME_MAX, not the temporary one;
	// a read flag that is changed for the third time (the stored file carries every private header)
	hs = append(hs, c11Hist{1, "ProcessInbound-longmid", 0}, c11Hist{0, "ProcessInbound-longmid", 1}, c11Hist{1, "SetUnread-third-change", 0}, c11Hist{2, "SetUnread-third-change", 0})
	// an identifier with the other characters a file name may hold (foreign systems put them into MIDs)
	hs = append(hs, c11Hist{1, "ProcessInbound-oddmid", 0}, c11Hist{0, "ProcessInbound-oddmid", 2})
	// the sent folder is on another file system than the outbox (a mount point, a symlink): rename fails with EXDEV
	hs = append(hs, c11Hist{1, "SetSent-xdev", 0}, c11Hist{2, "SetSent-xdev", 0})
	return hs
}

// c11LongMID: 248 characters - "<MID>.b2f" fits into a file name of 255 bytes, the decorated name of
// the temporary file does not.
var c11LongMID = "L" + strings.Repeat("A", 247)

const c11OddMID = "K7:AB+CD@1_2"

var c11Seq int

var tmpSuffix = regexp.MustCompile(`\.tmp[0-9]+$`)

type c11Env struct {
	dir string
	h   *mailbox.DirHandler
}

func c11Tmp() string {
	if st, err := os.Stat("/dev/shm"); err == nil && st.IsDir() {
		return "/dev/shm"
	}
	return ""
}

// c11Setup builds the pre-populated mailbox (no crash plan active) and returns a fresh handler.
func c11Setup(h c11Hist) *c11Env {
	// fixed-width directory names: stored X-FilePath headers must have the same length in every run
	c11Seq++
	base := c11Tmp()
	if base == "" {
		base = os.TempDir()
	}
	dir := filepath.Join(base, fmt.Sprintf("c11-%08d-%08d", os.Getpid(), c11Seq))
	os.RemoveAll(dir)
	if err := os.MkdirAll(dir, 0o755); err != nil {
		core.Infra("%v", err)
	}
	mb := filepath.Join(dir, "mbox")
	e := &c11Env{dir: mb}
	if h.Op == "Prepare-empty-dir" {
		e.h = mailbox.NewDirHandler(mb, false)
		return e
	}
	dh := mailbox.NewDirHandler(mb, false)
	must(dh.Prepare())
	for i := 1; i <= h.Pre; i++ {
		must(dh.ProcessInbound(c11Msg(fmt.Sprintf("INB%d", i), i%3, false)))
		must(dh.AddOut(c11Msg(fmt.Sprintf("OUT%d", i), (i+1)%3, false)))
		must(dh.AddOut(c11Msg(fmt.Sprintf("SNT%d", i), i%3, false)))
		dh.SetSent(fmt.Sprintf("SNT%d", i), false)
	}
	if h.Pre > 0 {
		must(dh.AddOut(c11Msg("P2P1", 0, true)))
	}
	if h.Pre == 2 {
		msgs, _ := dh.Inbox()
		for _, m := range msgs {
			if m.MID() == "INB2" {
				must(mailbox.SetUnread(m, false))
			}
		}
	}
	e.h = mailbox.NewDirHandler(mb, false)
	must(e.h.Prepare())
	return e
}

func must(err error) {
	if err != nil {
		core.Infra("C11 setup: %v", err)
	}
}

func (e *c11Env) close() { os.RemoveAll(filepath.Dir(e.dir)) }

// op performs the (to be interrupted) operation.
func (e *c11Env) op(h c11Hist) error {
	switch h.Op {
	case "ProcessInbound-new":
		return e.h.ProcessInbound(c11Msg("NEWIN1", h.Size, false))
	case "ProcessInbound-longmid":
		return e.h.ProcessInbound(c11Msg(c11LongMID, h.Size, false))
	case "ProcessInbound-oddmid":
		return e.h.ProcessInbound(c11Msg(c11OddMID, h.Size, false))
	case "SetUnread-third-change":
		for _, v := range []bool{false, true, false} {
			msgs, err := e.h.Inbox()
			if err != nil {
				return err
			}
			for _, m := range msgs {
				if m.MID() == "INB1" {
					if err := mailbox.SetUnread(m, v); err != nil {
						return err
					}
				}
			}
		}
		return nil
	case "ProcessInbound-two":
		return e.h.ProcessInbound(c11Msg("NEWIN1", 0, false), c11Msg("NEWIN2", 1, false))
	case "ProcessInbound-existing":
		return e.h.ProcessInbound(c11Msg("INB1", 1, false))
	case "AddOut-new":
		return e.h.AddOut(c11Msg("NEWOUT1", h.Size, false))
	case "AddOut-repost-of-sent":
		return e.h.AddOut(c11Msg("SNT1", 1, false))
	case "SetSent":
		e.h.SetSent("OUT1", false)
	case "SetSent-rejected":
		e.h.SetSent("OUT1", true)
	case "SetSent-xdev":
		vfs.XDev = true
		defer func() { vfs.XDev = false }()
		e.h.SetSent("OUT1", false)
	case "SetSent-p2ponly":
		e.h.SetSent("P2P1", false)
	case "SetUnread-false", "SetUnread-true":
		msgs, err := e.h.Inbox()
		if err != nil {
			return err
		}
		for _, m := range msgs {
			if m.MID() == "INB1" {
				return mailbox.SetUnread(m, h.Op == "SetUnread-true")
			}
		}
		return fmt.Errorf("INB1 not listed")
	case "Prepare-empty-dir":
		return e.h.Prepare()
	}
	return nil
}

// canonical bytes of a stored message: without X-FilePath (added on load); X-Unread optionally.
func c11Canon(m *fbb.Message, dropUnread bool) []byte {
	b, _ := m.Bytes()
	var cp fbb.Message
	cp.ReadFrom(bytes.NewReader(b))
	cp.Header.Del("X-Filepath")
	if dropUnread {
		cp.Header.Del("X-Unread")
	}
	out, _ := cp.Bytes()
	return out
}

type c11Snap map[string]map[string][]byte // folder -> MID -> canonical bytes

func c11Snapshot(h *mailbox.DirHandler, dropUnread map[string]bool) (c11Snap, error) {
	s := c11Snap{}
	for name, f := range map[string]func() ([]*fbb.Message, error){"in": h.Inbox, "out": h.Outbox, "sent": h.Sent, "archive": h.Archive} {
		msgs, err := f()
		if err != nil {
			return nil, fmt.Errorf("folder %s does not load: %v", name, err)
		}
		s[name] = map[string][]byte{}
		for _, m := range msgs {
			s[name][m.MID()] = c11Canon(m, dropUnread[m.MID()])
		}
	}
	return s, nil
}

type c11Plan struct {
	Hist   c11Hist `json:"history"`
	Step   int     `json:"crash_before_mutating_primitive"`
	Prefix int     `json:"write_prefix"`
}

// c11Run executes one crash plan and judges the recovery. Returns class, detail, tree hash.
func c11Run(p c11Plan) (class, detail, tree string, inside bool) {
	e := c11Setup(p.Hist)
	defer e.close()
	target := map[string]bool{}
	if strings.HasPrefix(p.Hist.Op, "SetUnread") {
		target["INB1"] = true
	}
	var before c11Snap
	if p.Hist.Op != "Prepare-empty-dir" {
		var err error
		before, err = c11Snapshot(e.h, target)
		if err != nil {
			core.Infra("C11: pre-populated mailbox does not load: %v", err)
		}
	}
	crashed := false
	vfs.Begin(p.Step, p.Prefix, false)
	func() {
		defer func() {
			if x := recover(); x != nil {
				if _, ok := x.(vfs.Crash); ok {
					crashed = true
					return
				}
				panic(x)
			}
		}()
		e.op(p.Hist)
	}()
	muts := vfs.MutCount()
	vfs.End()
	inside = crashed && p.Step > 0 && muts > 1
	tree = treeHash(e.dir)
	// ---- restart ----
	h2 := mailbox.NewDirHandler(e.dir, false)
	if err := h2.Prepare(); err != nil {
		return "prepare-fails-after-crash", err.Error(), tree, inside
	}
	after, err := c11Snapshot(h2, target)
	if err != nil {
		shape := "other"
		switch {
		case strings.HasPrefix(p.Hist.Op, "ProcessInbound"):
			shape = "in"
		case strings.HasPrefix(p.Hist.Op, "AddOut"):
			shape = "out"
		case strings.HasPrefix(p.Hist.Op, "SetUnread"):
			shape = "in-rewrite"
		case strings.HasPrefix(p.Hist.Op, "SetSent"):
			shape = "setsent"
		}
		return "folder-does-not-load|" + shape, err.Error(), tree, inside
	}
	// previously stored messages are intact (the operation's own targets follow their own rule)
	moved := map[string]bool{}
	switch p.Hist.Op {
	case "SetSent", "SetSent-rejected", "SetSent-xdev":
		moved["OUT1"] = true
	case "SetSent-p2ponly":
		moved["P2P1"] = true
	case "ProcessInbound-existing":
		moved["INB1"] = true // same MID re-received: old or new copy, checked below
	}
	for folder, msgs := range before {
		for mid, data := range msgs {
			if moved[mid] {
				continue
			}
			got, ok := after[folder][mid]
			if !ok {
				return "stored-message-lost", fmt.Sprintf("%s/%s is gone", folder, mid), tree, inside
			}
			if !bytes.Equal(got, data) {
				return "stored-message-altered", fmt.Sprintf("%s/%s differs after the crash (%d vs %d bytes)", folder, mid, len(got), len(data)), tree, inside
			}
		}
	}
	// outbound messages are in exactly one of out / sent
	for mid := range moved {
		if strings.HasPrefix(p.Hist.Op, "SetSent") {
			_, o := after["out"][mid]
			_, s := after["sent"][mid]
			if o == s {
				return "outbound-not-in-exactly-one-folder", fmt.Sprintf("%s: in out=%v in sent=%v", mid, o, s), tree, inside
			}
			want := before["out"][mid]
			got := after["out"][mid]
			if s {
				got = after["sent"][mid]
			}
			if !bytes.Equal(want, got) {
				return "outbound-altered", mid, tree, inside
			}
		}
	}
	// a proposal for the interrupted inbound message is rejected only if a complete copy is stored
	check := func(mid string, size int) (string, string) {
		prop := *fbb.NewProposal(mid, "t", fbb.Wl2kProposal, []byte("x"))
		ans := h2.GetInboundAnswer(prop)
		// a Session asks through the batched method if the handler has one
		if b, ok := any(h2).(fbb.BatchedInboundHandler); ok && ans != fbb.Reject {
			if as := b.GetInboundAnswers([]fbb.Proposal{prop}); len(as) == 1 {
				ans = as[0]
			}
		}
		if ans == fbb.Reject {
			got, ok := after["in"][mid]
			want := c11Msg(mid, size, false)
			want.Header.Set("X-Unread", "true")
			if !ok || !bytes.Equal(got, c11Canon(want, false)) {
				return "rejects-proposal-without-complete-copy", fmt.Sprintf("%s answered 'already received' but the inbox copy is missing or incomplete", mid)
			}
		}
		return "", ""
	}
	switch p.Hist.Op {
	case "ProcessInbound-longmid":
		if c, d := check(c11LongMID, p.Hist.Size); c != "" {
			return c, d, tree, inside
		}
	case "ProcessInbound-oddmid":
		if c, d := check(c11OddMID, p.Hist.Size); c != "" {
			return c, d, tree, inside
		}
	case "ProcessInbound-new":
		if c, d := check("NEWIN1", p.Hist.Size); c != "" {
			return c, d, tree, inside
		}
	case "ProcessInbound-two":
		for i, mid := range []string{"NEWIN1", "NEWIN2"} {
			if c, d := check(mid, i); c != "" {
				return c, d, tree, inside
			}
		}
	case "ProcessInbound-existing":
		got, ok := after["in"]["INB1"]
		oldM, newM := c11Msg("INB1", 1, false), c11Msg("INB1", 1, false)
		oldM.Header.Set("X-Unread", "true")
		newM.Header.Set("X-Unread", "true")
		_ = oldM
		if !ok || !(bytes.Equal(got, before["in"]["INB1"]) || bytes.Equal(got, c11Canon(newM, false))) {
			return "re-received-message-corrupt", "in/INB1 is neither the old nor the new complete copy", tree, inside
		}
	}
	// GetOutbound still offers the other outbound messages
	if before != nil {
		got := map[string]bool{}
		for _, m := range h2.GetOutbound() {
			got[m.MID()] = true
		}
		for mid := range before["out"] {
			if moved[mid] || mid == "P2P1" {
				continue
			}
			if !got[mid] {
				return "getoutbound-misses-message", mid, tree, inside
			}
		}
	}
	return "", "", tree, inside
}

func treeHash(dir string) string {
	h := sha256.New()
	var names []string
	filepath.Walk(dir, func(p string, info os.FileInfo, err error) error {
		if err == nil {
			names = append(names, p)
		}
		return nil
	})
	sort.Strings(names)
	for _, p := range names {
		rel, _ := filepath.Rel(dir, p)
		rel = tmpSuffix.ReplaceAllString(rel, ".tmp*") // random suffix of temporary files
		st, _ := os.Stat(p)
		if st != nil && st.IsDir() {
			fmt.Fprintf(h, "D %s\n", rel)
			continue
		}
		b, _ := os.ReadFile(p)
		b = bytes.ReplaceAll(b, []byte(dir), []byte("<MBOX>"))
		fmt.Fprintf(h, "F %s %d %x\n", rel, len(b), sha256.Sum256(b))
	}
	return fmt.Sprintf("%x", h.Sum(nil)[:10])
}

// c11Plans enumerates every crash plan of a history: before every mutating primitive, and for
// writes after every prefix length.
func c11Plans(h c11Hist) []c11Plan {
	e := c11Setup(h)
	defer e.close()
	vfs.Begin(-1, 0, true)
	func() {
		defer func() {
			if x := recover(); x != nil {
				if _, ok := x.(vfs.Crash); !ok { // (the operation may end the process: log.Fatal)
					panic(x)
				}
			}
		}()
		e.op(h)
	}()
	log := vfs.End()
	var plans []c11Plan
	step := 0
	for _, ev := range log {
		if !ev.Mut {
			continue
		}
		if ev.Op == "write" {
			for j := 0; j <= ev.Len; j++ {
				plans = append(plans, c11Plan{h, step, j})
			}
		} else {
			plans = append(plans, c11Plan{h, step, 0})
		}
		step++
	}
	plans = append(plans, c11Plan{h, step, 0}) // no crash: the operation completes
	return plans
}

func C11(args []string) {
	r := core.Begin("C11", "fault_enumeration", args)
	for i, a := range args {
		if a == "--sigkill" && i+3 < len(args) { // child of the real-kill cross-check
			var p c11Plan
			fmt.Sscanf(args[i+1], "%d,%d,%d,%d", &p.Hist.Pre, &p.Hist.Size, &p.Step, &p.Prefix)
			p.Hist.Op = args[i+2]
			dir := args[i+3]
			c11SigkillChild(p, dir)
			return
		}
	}
	if p := replayPath(args); p != "" {
		var f struct {
			Case c11Plan `json:"case"`
		}
		readJSONFile(p, &f)
		c, d, t, _ := c11Run(f.Case)
		fmt.Printf("%+v: class=%q %s tree=%s\n", f.Case, c, d, t)
		return
	}
	var plans []c11Plan
	for _, h := range c11Histories(r.Thorough()) {
		plans = append(plans, c11Plans(h)...)
	}
	r.Sharded(len(plans), func(i int) {
		p := plans[i]
		class, detail, tree, inside := c11Run(p)
		r.Evals.Add(1)
		if inside {
			r.Nontrivial.Add(1)
			r.Key(tree)
		}
		if class != "" {
			r.Violation("C11|"+class, fmt.Sprintf("%s, crash before mutating primitive %d after %d bytes of the write: %s", p.Hist, p.Step, p.Prefix, detail), p)
		}
		if i%9973 == 0 {
			r.Sample(p)
		}
		// bind the simulated kill to a real one (thorough: every 50th plan; quick: every 2000th)
		every := 2000
		if r.Thorough() {
			every = 50
		}
		if i%every == 0 && p.Hist.Op != "Prepare-empty-dir" {
			real := c11RealKill(p)
			if real != tree {
				core.Infra("C11: a real SIGKILL at plan %+v leaves tree %s, the simulation %s", p, real, tree)
			}
			r.Add("real_sigkill_crosschecks", 1)
		}
	}, core.ShardOpts{Watchdog: 120 * time.Second})
	add := r.Added()
	r.Finish(core.Coverage{
		"evaluations":         r.Evals.Load(),
		"distinct_nontrivial": int64(len(r.Keys())),
		"rule":                "one evaluation = one crash plan (history, crash before the k-th mutating file-system primitive, j bytes of that write done) followed by a restart and the recovery checks; distinct non-trivial = distinct post-crash directory trees from crashes strictly inside the operation",
		"histories":           len(c11Histories(r.Thorough())), "crash_plans": len(plans),
		"traces_validated_against_impl": add["real_sigkill_crosschecks"],
		"real_sigkill_crosschecks":      add["real_sigkill_crosschecks"],
	}, []string{
		"process death (page cache survives), as the property words it; power loss / fsync reordering is not modelled",
		"the seam decomposes WriteFile and MkdirAll into the primitives the standard library issues; a sample of plans is re-run in a child process that really receives SIGKILL at the crash point and must leave the same directory tree",
	})
}

// c11RealKill runs the plan in a child that kills itself for real at the crash point; returns the
// hash of the tree it leaves behind.
func c11RealKill(p c11Plan) string {
	e := c11Setup(p.Hist)
	defer e.close()
	cmd := exec.Command(os.Args[0], "C11", "--sigkill", fmt.Sprintf("%d,%d,%d,%d", p.Hist.Pre, p.Hist.Size, p.Step, p.Prefix), p.Hist.Op, e.dir)
	cmd.Run() // dies by SIGKILL (or exits 0 if the plan's step is past the end)
	return treeHash(e.dir)
}

func c11SigkillChild(p c11Plan, dir string) {
	e := &c11Env{dir: dir, h: mailbox.NewDirHandler(dir, false)}
	if err := e.h.Prepare(); err != nil {
		os.Exit(3)
	}
	vfs.SigKill = true
	vfs.Begin(p.Step, p.Prefix, false)
	e.op(p.Hist)
	os.Exit(0)
}
