package gprops

import (
	"encoding/hex"
	"fmt"
	"io"
	"log"
	"os"
	"os/exec"
	"path/filepath"
	"strconv"
	"strings"
	"time"

	"github.com/la5nta/wl2k-go/fbb"
	"github.com/la5nta/wl2k-go/mailbox"

	"verif/core"
	"verif/sandbox"
	"verif/vfs"
)

func init() { Registry["C12"] = C12; Registry["C12child"] = c12Child }

// c12Child performs the sent-marking operations in a process of its own: DirHandler.SetSent ends the
// process (log.Fatalf) when the rename fails, which is an acceptable way of touching nothing.
// vgovs C12child <mailbox hex> <mid hex> <mode>: bit 0 = rejected, bit 1 = GetOutbound first.
func c12Child(args []string) {
	if len(args) < 3 {
		os.Exit(3)
	}
	mbox, _ := hex.DecodeString(args[0])
	mid, _ := hex.DecodeString(args[1])
	mode, _ := strconv.Atoi(args[2])
	log.SetOutput(io.Discard)
	h := mailbox.NewDirHandler(string(mbox), false)
	h.Prepare()
	if mode&2 != 0 {
		h.GetOutbound()
	}
	h.SetSent(string(mid), mode&1 != 0)
	os.Exit(0)
}

type c12Case struct {
	MID    string `json:"mid"`
	Header string `json:"header,omitempty"` // extra header "Key: value" ("<MBOX>" expands to the mailbox path)
	Op     string `json:"op"`
	// Seq, if set, is a sequence of handler operations; "H" stands for the hostile identifier MID,
	// "V" for a valid one: Prepare, Answer:H|V, Answers:HV, Process:H|V, Deferred:H|V, GetOutbound
	Seq []string `json:"seq,omitempty"`
}

var c12Tokens = []string{"a", "/", "..", ".", "\\", "\x00", "../"}

func c12MIDs() []string {
	var out []string
	var rec func(cur string, n int)
	rec = func(cur string, n int) {
		if n > 0 {
			out = append(out, cur)
		}
		if n == 5 {
			return
		}
		for _, t := range c12Tokens {
			rec(cur+t, n+1)
		}
	}
	rec("", 0)
	out = append(out, "", strings.Repeat("a", 300), "ü", "/etc/x", "~", "~/x", "a/../../../../../../x", "..\\..\\pwn", "....//....//x", "%2e%2e%2fx", "CON", "a\nb", "a\rb", " ", "../../../../../../../../tmp/c12-absolute-escape")
	return out
}

// c12TokenCount is the length of mid in tokens if it is one of the enumerated token strings (99: a special one).
func c12TokenCount(mid string) int {
	n := 0
	for len(mid) > 0 {
		switch {
		case strings.HasPrefix(mid, "../"):
			mid = mid[3:]
		case strings.HasPrefix(mid, ".."):
			mid = mid[2:]
		case strings.ContainsRune("a/.\\\x00", rune(mid[0])):
			mid = mid[1:]
		default:
			return 99
		}
		n++
		if n > 5 {
			return 99
		}
	}
	return n
}

var c12Headers = []string{
	"X-FilePath: <MBOX>/../outside/target.b2f", "X-FilePath: <MBOX>/in/../../outside/new.b2f", "X-FilePath: <MBOX>backup/x.b2f", "X-FilePath: /tmp/c12-evil.b2f",
	"X-FilePath: ../../evil.b2f", "X-Filepath: <MBOX>/../decoy.txt", "X-Unread: ../../x", "X-P2POnly: ../x", "File: 3 ../../../attachment-escape.txt", "Subject: ../../../subject", "Mbo: ../../mbo", "From: ../../../from", "To: ../../to",
}

type c12Sandbox struct {
	root, mbox string
	sb         *sandbox.Sandbox
}

func newC12Sandbox() *c12Sandbox {
	sb, err := sandbox.New(sandbox.TmpBase())
	if err != nil {
		core.Infra("%v", err)
	}
	h := mailbox.NewDirHandler(sb.MBox, false)
	if err := h.Prepare(); err != nil {
		core.Infra("%v", err)
	}
	// one legitimate outbound message so that the mailbox is not empty
	h.AddOut(c11Msg("LEGITOUT1", 0, false))
	return &c12Sandbox{sb.Root, sb.MBox, sb}
}

func (s *c12Sandbox) close() { os.RemoveAll(s.root) }

// c12Run performs one operation with a hostile identifier and judges confinement.
func c12Run(c c12Case) (class, detail string, hostile bool) {
	sb := newC12Sandbox()
	defer sb.close()
	h := mailbox.NewDirHandler(sb.mbox, false)
	h.Prepare()
	before := sandbox.Snapshot(sb.root, sb.mbox)
	msg := c11Msg("PLACEHOLDER", 0, false)
	msg.Header.Set("Mid", c.MID)
	if c.Header != "" {
		kv := strings.SplitN(strings.ReplaceAll(c.Header, "<MBOX>", sb.mbox), ": ", 2)
		msg.Header.Set(kv[0], kv[1])
	}
	hostile = strings.ContainsAny(c.MID, "/\\\x00") || strings.Contains(c.MID, "..") || c.Header != ""
	if strings.HasPrefix(c.Op, "SetSent") {
		// mode: SetSent[-rejected][+relay]: with +relay the outbox holds a message file whose name is not
		// its MID (the handler offers every *.b2f) and whose Mid header is the hostile identifier, and
		// the handler has listed it before it is marked sent
		mode := 0
		if strings.Contains(c.Op, "rejected") {
			mode |= 1
		}
		if strings.Contains(c.Op, "relay") {
			mode |= 2
			if data, err := msg.Bytes(); err == nil {
				os.WriteFile(filepath.Join(sb.mbox, "out", "relay-0001.b2f"), data, 0o644)
			}
		}
		before = sandbox.Snapshot(sb.root, sb.mbox)
		cmd := exec.Command(os.Args[0], "C12child", hex.EncodeToString([]byte(sb.mbox)), hex.EncodeToString([]byte(c.MID)), strconv.Itoa(mode))
		cmd.Env = append(os.Environ(), "VERIF_ROOT="+core.Root)
		cmd.Run() // the exit status is of no interest: dying without touching anything is fine
		if d := sandbox.Diff(before, sandbox.Snapshot(sb.root, sb.mbox)); d != "" {
			d = strings.ReplaceAll(d, sb.root, "<SANDBOX>")
			kind := "created"
			if strings.Contains(d, "modified") {
				kind = "modified"
			}
			if strings.Contains(d, "deleted") {
				kind = "deleted"
			}
			return "escape|" + c.Op + "|" + kind + "|via mid", d, hostile
		}
		return "", "", hostile
	}
	vfs.Begin(-1, 0, true)
	pmsg, _ := core.Catch(func() {
		for _, op := range c.Seq {
			id := func(k byte) string {
				if k == 'H' {
					return c.MID
				}
				return "VALIDMID0001"
			}
			prop := func(k byte) fbb.Proposal { return *fbb.NewProposal(id(k), "t", fbb.Wl2kProposal, []byte("x")) }
			name, arg, _ := strings.Cut(op, ":")
			switch name {
			case "Prepare":
				h.Prepare()
			case "Answer":
				h.GetInboundAnswer(prop(arg[0]))
			case "Answers":
				if b, ok := any(h).(fbb.BatchedInboundHandler); ok {
					b.GetInboundAnswers([]fbb.Proposal{prop(arg[0]), prop(arg[1])})
				}
			case "Process":
				m := c11Msg("PLACEHOLDER", 0, false)
				m.Header.Set("Mid", id(arg[0]))
				h.ProcessInbound(m)
			case "Deferred":
				h.SetDeferred(id(arg[0]))
			case "GetOutbound":
				h.GetOutbound()
			}
		}
		switch c.Op {
		case "ProcessInbound":
			h.ProcessInbound(msg)
		case "GetInboundAnswer":
			h.GetInboundAnswer(*fbb.NewProposal(c.MID, "t", fbb.Wl2kProposal, []byte("x")))
		case "GetInboundAnswers":
			if b, ok := any(h).(fbb.BatchedInboundHandler); ok {
				b.GetInboundAnswers([]fbb.Proposal{*fbb.NewProposal(c.MID, "t", fbb.Wl2kProposal, []byte("x"))})
			}
		case "SetDeferred":
			h.SetDeferred(c.MID)
		case "ProcessInbound+Answer":
			h.ProcessInbound(msg)
			h.GetInboundAnswer(*fbb.NewProposal(c.MID, "t", fbb.Wl2kProposal, []byte("x")))
		}
	})
	log := vfs.End()
	_ = pmsg // a panic on a hostile identifier is C03's business; confinement is judged regardless
	after := sandbox.Snapshot(sb.root, sb.mbox)
	if d := sandbox.Diff(before, after); d != "" {
		d = strings.ReplaceAll(d, sb.root, "<SANDBOX>")
		kind := "created"
		if strings.Contains(d, "modified") {
			kind = "modified"
		}
		if strings.Contains(d, "deleted") {
			kind = "deleted"
		}
		via := "mid"
		if c.Header != "" {
			via = "header " + strings.SplitN(c.Header, ":", 2)[0]
		}
		op := c.Op
		if len(c.Seq) > 0 {
			op = "sequence"
		}
		return "escape|" + op + "|" + kind + "|via " + via, d, hostile
	}
	// also nothing escaped to the absolute locations some identifiers aim at
	for _, p := range []string{"/tmp/c12-absolute-escape.b2f", "/tmp/c12-evil.b2f"} {
		if _, err := os.Stat(p); err == nil {
			os.Remove(p)
			return "escape|" + c.Op + "|created|absolute", p, hostile
		}
	}
	for _, ev := range log {
		if !ev.Mut || ev.Op == "close" {
			continue
		}
		for _, p := range []string{ev.Path, ev.Path2} {
			if p != "" && p != sb.mbox && !strings.HasPrefix(p, sb.mbox+"/") {
				return "seam-mutation-outside-mailbox|" + c.Op, fmt.Sprintf("%s %s", ev.Op, strings.ReplaceAll(p, sb.root, "<SANDBOX>")), hostile
			}
		}
	}
	return "", "", hostile
}

func C12(args []string) {
	r := core.Begin("C12", "model_checking", args)
	if p := replayPath(args); p != "" {
		var f struct {
			Case c12Case `json:"case"`
		}
		readJSONFile(p, &f)
		c, d, _ := c12Run(f.Case)
		fmt.Printf("%q: class=%q %s\n", f.Case, c, d)
		return
	}
	var cases []c12Case
	for _, mid := range c12MIDs() {
		for _, op := range []string{"ProcessInbound", "GetInboundAnswer", "SetDeferred"} {
			cases = append(cases, c12Case{MID: mid, Op: op})
		}
	}
	for _, hd := range c12Headers {
		for _, mid := range []string{"NORMALMID001", "../x", "a"} {
			cases = append(cases, c12Case{MID: mid, Header: hd, Op: "ProcessInbound+Answer"})
		}
	}
	// marking sent (in a child process each): identifiers of up to 4 tokens and the special ones
	for _, mid := range c12MIDs() {
		if n := c12TokenCount(mid); n > 4 && n < 99 {
			continue
		}
		for _, op := range []string{"SetSent", "SetSent-rejected", "SetSent+relay", "SetSent-rejected+relay"} {
			cases = append(cases, c12Case{MID: mid, Op: op})
		}
	}
	// operation sequences: what one call records another may use (two identifiers, two steps)
	seqOps := []string{"Prepare", "Answer:H", "Answer:V", "Answers:HV", "Process:H", "Process:V", "Deferred:H", "GetOutbound"}
	var seqs [][]string
	for _, a := range seqOps {
		for _, b := range seqOps {
			seqs = append(seqs, []string{a, b})
			for _, c := range seqOps {
				seqs = append(seqs, []string{a, b, c})
			}
		}
	}
	for _, mid := range []string{"../../a", "../../aa", "../../../a", "../../pwn", "..\\..\\a", "a/../../../a", "../../../../../../../../tmp/c12-absolute-escape", "../../outside/target", "../a\x00"} {
		for _, sq := range seqs {
			cases = append(cases, c12Case{MID: mid, Seq: sq})
		}
	}
	r.Sharded(len(cases), func(i int) {
		c := cases[i]
		class, detail, hostile := c12Run(c)
		r.Evals.Add(1)
		if hostile {
			r.Nontrivial.Add(1)
			r.Distinct(fmt.Sprint(i))
		}
		if class != "" {
			r.Violation("C12|"+class, fmt.Sprintf("MID %q header %q %v: %s", c.MID, c.Header, c.Seq, detail), c)
		}
		if i%3001 == 0 {
			r.Sample(c)
		}
	}, core.ShardOpts{Watchdog: 120 * time.Second})
	// the session path runs in the plain binary (un-rewritten fbb on the deterministic link)
	if !r.IsChild() {
		if died, kind, tail := r.RunForeign(filepath.Join(core.Root, "bin", "vcheck"), "C12session", nil, 300*time.Second); died {
			core.Infra("C12 session part failed (%s): %s", kind, core.Trunc(tail, 1500))
		}
	}
	add := r.Added()
	r.Finish(core.Coverage{
		"states":                        int64(len(cases)) + add["session_cases"],
		"transitions":                   r.Evals.Load(),
		"traces_validated_against_impl": r.Evals.Load(),
		"distinct_nontrivial":           int64(r.DistinctN()),
		"rule":                          "one evaluation = one handler operation (or one complete session against the reference peer) with a hostile MID / header value inside a sandbox directory tree with decoys at every level; distinct non-trivial = distinct cases whose identifier contains a separator, a dot-dot token or NUL, or that carry a hostile header",
		"mids":                          len(c12MIDs()), "header_values": len(c12Headers), "session_cases": add["session_cases"],
	}, []string{
		"ground truth is a recursive snapshot (path, size, mtime, inode, mode, content hash) of the sandbox outside the mailbox before and after each call; in addition every mutating primitive logged by the file-system seam must lie under the mailbox root",
		"SetSent is exercised with every identifier of up to 4 tokens (each in a process of its own: the handler ends the process when the rename fails), also after GetOutbound has listed an outbox file whose Mid header is that identifier; AddOut with a hostile MID is a local action outside the property",
	})
}
