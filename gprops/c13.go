package gprops

import (
	"bytes"
	"encoding/binary"
	"fmt"
	"io"
	"net"
	"os"
	"strings"
	"time"

	"github.com/la5nta/wl2k-go/transport/ax25/agwpe"

	"verif/core"
	"verif/vs"
	"verif/vs/vcontext"
	"verif/vs/vnet"
	"verif/vs/vtime"
)

func init() { Registry["C13"] = C13 }

// ---- reference AGWPE frame codec + TNC simulator (DESIGN.md App. C) ---------------------------

type agwFrame struct {
	Port     byte
	Kind     byte
	PID      byte
	From, To string
	Data     []byte
	RawLen   uint32 // DataLen field as written (malformed frames may lie)
}

func (f agwFrame) bytes() []byte {
	b := make([]byte, 36, 36+len(f.Data))
	b[0] = f.Port
	b[4] = f.Kind
	b[6] = f.PID
	copy(b[8:18], f.From)
	copy(b[18:28], f.To)
	n := uint32(len(f.Data))
	if f.RawLen != 0 {
		n = f.RawLen
	}
	binary.LittleEndian.PutUint32(b[28:], n)
	return append(b, f.Data...)
}

func cstr(b []byte) string {
	if i := bytes.IndexByte(b, 0); i >= 0 {
		return string(b[:i])
	}
	return string(b)
}

func readAgwFrame(c net.Conn) (agwFrame, error) {
	var h [36]byte
	if _, err := io.ReadFull(c, h[:]); err != nil {
		return agwFrame{}, err
	}
	f := agwFrame{Port: h[0], Kind: h[4], PID: h[6], From: cstr(h[8:18]), To: cstr(h[18:28])}
	n := binary.LittleEndian.Uint32(h[28:])
	if n > 1<<20 {
		return f, fmt.Errorf("host announced %d data bytes", n)
	}
	f.Data = make([]byte, n)
	_, err := io.ReadFull(c, f.Data)
	return f, err
}

type tncSim struct {
	cfg         c13Scn
	conn        net.Conn
	got         []agwFrame // frames received from the host
	complaints  []string
	written     []byte // connected data received from the host, concatenated
	outstanding int
	polls       int
	connected   bool
	dSeen       bool // host sent 'd'
	regSeen     bool
	connectKind byte
	connects    int
	stage       func() string // the application's stage (set by the harness)
	sent        int
}

const (
	c13Addr   = "agwpe-tnc:8000"
	c13MyCall = "N0MYC"
	c13Target = "LA1B-10"
)

func (t *tncSim) complain(format string, a ...any) {
	t.complaints = append(t.complaints, fmt.Sprintf(format, a...))
}

func (t *tncSim) send(f agwFrame) {
	t.conn.Write(f.bytes())
	t.sent++
	if t.cfg.DieAfter > 0 && t.sent == t.cfg.DieAfter {
		t.conn.Close() // the TNC is gone right behind this frame (link lost, process killed)
	}
}

// handle validates one host frame and replies as an AGWPE TNC does.
func (t *tncSim) handle(f agwFrame) {
	sc := t.cfg
	P := byte(sc.Port)
	t.got = append(t.got, f)
	switch f.Kind {
	case 'R':
		t.send(agwFrame{Kind: 'R', Data: []byte{1, 0, 0, 0, 6, 0, 0, 0}})
	case 'g':
		if f.Port != P {
			t.complain("'g' frame for port %d, registered port is %d", f.Port, P)
		}
		if sc.HS != "no-g" {
			d := make([]byte, 12)
			d[6] = 4 // MaxFrame
			switch {
			case sc.MaxFrame < 0:
				d[6] = 0
			case sc.MaxFrame > 0:
				d[6] = byte(sc.MaxFrame)
			}
			t.send(agwFrame{Port: f.Port, Kind: 'g', Data: d})
		}
	case 'X':
		t.regSeen = true
		if f.Port != P || f.From != c13MyCall {
			t.complain("'X' frame with port %d from %q (want port %d from %q)", f.Port, f.From, P, c13MyCall)
		}
		ok := byte(1)
		if sc.HS == "x-refused" {
			ok = 0
		}
		t.send(agwFrame{Port: f.Port, Kind: 'X', From: f.From, Data: []byte{ok}})
	case 'C', 'v':
		t.connectKind = f.Kind
		if f.Port != P {
			t.complain("'%c' (connect) frame carries port %d, the registered port is %d", f.Kind, f.Port, P)
		}
		if f.From != c13MyCall || f.To != c13Target {
			t.complain("connect frame from %q to %q", f.From, f.To)
		}
		if f.Kind == 'v' {
			nd := len(sc.digis())
			if len(f.Data) != 1+10*nd || int(f.Data[0]) != nd {
				t.complain("'v' frame digi list malformed: %d data bytes for %d digis", len(f.Data), nd)
			} else {
				for i, d := range sc.digis() {
					if cstr(f.Data[1+10*i:11+10*i]) != d {
						t.complain("'v' frame digi %d is %q, want %q", i, cstr(f.Data[1+10*i:11+10*i]), d)
					}
				}
			}
		} else if len(sc.digis()) > 0 {
			t.complain("connect with digipeaters must use a 'v' frame")
		}
		t.connects++
		switch {
		case sc.HS == "connect-refused" || sc.Redial == 2 && t.connects == 1:
			t.send(agwFrame{Port: P, Kind: 'd', From: c13Target, To: c13MyCall, Data: []byte("*** DISCONNECTED RETRYOUT With " + c13Target + "\r")})
		case sc.HS == "connect-silent":
		default:
			// the link is up once the acknowledgement is on the wire: the pusher thread must not get
			// its data / disconnect frames out in front of it (AGWPE never reports data for a
			// connection before the connection)
			t.send(agwFrame{Port: P, Kind: 'C', From: c13Target, To: c13MyCall, Data: []byte("*** CONNECTED With " + c13Target + "\r")})
			t.connected = true
		}
	case 'D':
		if f.Port != P || f.From != c13MyCall || f.To != c13Target || f.PID != 0xf0 {
			t.complain("'D' frame port %d from %q to %q pid %#x", f.Port, f.From, f.To, f.PID)
		}
		t.written = append(t.written, f.Data...)
		t.outstanding++
	case 'Y':
		if f.Port != P || f.From != c13MyCall || f.To != c13Target {
			t.complain("'Y' frame port %d from %q to %q", f.Port, f.From, f.To)
		}
		t.polls++
		d := make([]byte, 4)
		binary.LittleEndian.PutUint32(d, uint32(t.outstanding))
		if sc.YBad > 0 && (!sc.YBadClose && t.polls == 1 || sc.YBadClose && t.stage != nil && t.stage() == "close") { // a malformed answer to a pending poll
			d = make([]byte, []int{0, 0, 3, 8, 5}[sc.YBad])
		}
		t.send(agwFrame{Port: f.Port, Kind: 'Y', From: f.From, To: f.To, Data: d})
		// the frames go out on the air: after a poll has seen them the count drops (R4: it stays
		// >= 1 until one poll has reported it)
		if t.outstanding > 0 && t.polls%sc.DropEvery == 0 {
			t.outstanding--
		}
	case 'd':
		t.dSeen = true
		if f.Port != P {
			t.complain("'d' (disconnect) frame carries port %d, the registered port is %d", f.Port, P)
		}
		if f.From != c13MyCall || f.To != c13Target {
			t.complain("'d' frame from %q to %q", f.From, f.To)
		}
		ack := agwFrame{Port: P, Kind: 'd', From: c13Target, To: c13MyCall, Data: []byte("*** DISCONNECTED From " + c13Target + "\r")}
		if sc.CloseAfter > 0 {
			// a busy channel: right behind the acknowledgement (same TCP segment) come late data frames of
			// the connection and traffic of other stations - while the application shuts everything down
			b := ack.bytes()
			for k := 0; k < 3; k++ {
				b = append(b, agwFrame{Port: P, Kind: 'D', PID: 0xf0, From: c13Target, To: c13MyCall, Data: []byte("late")}.bytes()...)
				b = append(b, agwFrame{Port: P, Kind: 'D', PID: 0xf0, From: "N0OTHER", To: "N0THIRD", Data: []byte("foreign station")}.bytes()...)
			}
			t.conn.Write(b)
			break
		}
		t.send(ack)
	case 'x':
		if f.Port != P {
			t.complain("'x' (unregister) frame carries port %d, the registered port is %d", f.Port, P)
		}
	default:
		t.complain("unexpected frame kind %q from the host", f.Kind)
	}
}

// ---- scenarios --------------------------------------------------------------------------------

type c13Scn struct {
	Kind       string `json:"kind"` // inbound | outbound | handshake | malformed
	Port       int    `json:"port"`
	Frames     []int  `json:"frames,omitempty"` // inbound payload sizes
	Foreign    int    `json:"foreign"`          // 0 none, 1 frames for another station interleaved, 2 for another port, 3 both
	ReadBuf    int    `json:"read_buf"`         // 0 = large (4096), else bytes
	Late       int    `json:"late"`             // reader starts only after the TNC has sent this many frames
	OneWrite   bool   `json:"one_write"`        // TNC writes all its unsolicited frames in a single Write
	Burst      bool   `json:"burst"`            // TNC does not wait for the host pipeline to come to rest between its unsolicited frames
	Seg        int    `json:"seg"`              // TNC->host segmentation plan
	Chunks     []int  `json:"chunks,omitempty"` // outbound write sizes
	DropEvery  int    `json:"drop_every"`       // the outstanding count drops by one after every n-th poll
	HS         string `json:"hs,omitempty"`     // handshake variant
	Digis      int    `json:"digis"`
	Deep       bool   `json:"deep,omitempty"`           // small scenario explored one deviation deeper from the established connection on, in every tier
	Redial     int    `json:"redial,omitempty"`         // 1: an earlier session with the same station was opened and closed first; 2: an earlier dial to it was refused
	MaxFrame   int    `json:"max_frame,omitempty"`      // MAXFRAME in the 'g' reply minus... 0 = the default 4; -1 = MAXFRAME 0; n = MAXFRAME n
	YBadClose  bool   `json:"y_bad_in_close,omitempty"` // the malformed answers are given to the polls Close issues (its flush), not to the first poll
	YBad       int    `json:"y_bad,omitempty"`          // the first outstanding-frames poll is answered with a data field of 0 (1), 3 (2), 8 (3), 5 (4) bytes instead of 4
	CloseAfter int    `json:"close_after,omitempty"`    // inbound: the application stops reading after this many bytes and closes connection and port while the TNC is still sending
	DieAfter   int    `json:"die_after,omitempty"`      // the TNC sends this many frames in answer to the host and is gone right behind the last one
	CtxCancel  bool   `json:"ctx_cancel,omitempty"`     // the dial context is cancelled as soon as the dial has returned (ctx, cancel := ...; defer cancel() in a dial helper)
	Mal        int    `json:"mal"`
	MalWhen    int    `json:"mal_when,omitempty"` // malformed input arrives 0: once the registration was seen; 1: after OpenPortTCP returned, digested before the application dials; 2: on the established connection, while the application reads
	Choices    []int  `json:"choices,omitempty"`
}

func (s c13Scn) digis() []string { return []string{"LD5SK", "W1AW-1"}[:s.Digis] }

func (s c13Scn) describe() string {
	return fmt.Sprintf("%s port=%d frames=%v foreign=%d readbuf=%d late=%d onewrite=%v burst=%v seg=%s chunks=%v drop=%d hs=%s digis=%d mal=%d/%d ybad=%d%v redial=%d maxframe=%d",
		s.Kind, s.Port, s.Frames, s.Foreign, s.ReadBuf, s.Late, s.OneWrite, s.Burst, c13SegName(s.Seg), s.Chunks, s.DropEvery, s.HS, s.Digis, s.Mal, s.MalWhen, s.YBad, s.YBadClose, s.Redial, s.MaxFrame) + map[bool]string{true: " dial context cancelled after the dial"}[s.CtxCancel] + map[bool]string{true: fmt.Sprintf(" close after %d bytes", s.CloseAfter)}[s.CloseAfter > 0] + map[bool]string{true: fmt.Sprintf(" tnc-gone-after-%d-frames", s.DieAfter)}[s.DieAfter > 0]
}

func c13SegName(i int) string {
	switch {
	case i == 0:
		return "none"
	case i == 1:
		return "every-byte"
	case i == 2:
		return "every-7"
	case i == 3:
		return "every-36"
	}
	return fmt.Sprintf("cut@%d", i-3)
}

func c13Seg(i int) vnet.Seg {
	switch {
	case i == 0:
		return vnet.Seg{}
	case i == 1:
		return vnet.Seg{Every: 1}
	case i == 2:
		return vnet.Seg{Every: 7}
	case i == 3:
		return vnet.Seg{Every: 36}
	}
	return vnet.Seg{Cuts: []int{i - 3}}
}

func c13Payload(k, n int) []byte {
	b := make([]byte, n)
	for i := range b {
		b[i] = byte('A' + k + i%23)
	}
	return b
}

type c13Obs struct {
	sim       *tncSim
	openErr   error
	dialErr   error
	read      []byte
	readErr   error
	writeErr  error
	flushErr  error
	closeErr  error
	wrote     []byte
	appDone   bool
	flushedAt int // sim.outstanding when Flush returned
	acceptErr error
	accepted  bool
	stage     string
	version   string
}

func c13Malformed(k int) []byte {
	ok := agwFrame{Port: 0, Kind: 'D', PID: 0xf0, From: c13Target, To: c13MyCall, Data: []byte("hello")}
	switch k {
	case 0: // unknown kind
		return agwFrame{Kind: '?', From: c13Target, To: c13MyCall, Data: []byte{1, 2, 3}}.bytes()
	case 1: // DataLen 0 data frame
		return agwFrame{Kind: 'D', PID: 0xf0, From: c13Target, To: c13MyCall}.bytes()
	case 2: // DataLen larger than what follows, then the stream ends
		f := ok
		f.RawLen = 50
		return f.bytes()
	case 3: // DataLen 2^32-1
		f := ok
		f.RawLen = 0xffffffff
		return f.bytes()
	case 4: // truncated header
		return ok.bytes()[:20]
	case 5: // short payloads for X, Y, g, R
		return bytes.Join([][]byte{agwFrame{Kind: 'X', From: c13MyCall}.bytes(), agwFrame{Kind: 'Y', From: c13MyCall, To: c13Target, Data: []byte{1}}.bytes(), agwFrame{Kind: 'g', Data: []byte{1, 2}}.bytes(), agwFrame{Kind: 'R', Data: []byte{1}}.bytes()}, nil)
	case 6: // a 'C' frame with unexpected text
		return agwFrame{Kind: 'C', From: c13Target, To: c13MyCall, Data: []byte("*** SOMETHING ELSE\r")}.bytes()
	case 7: // DataLen 16 MiB with nothing following
		f := ok
		f.RawLen = 16 << 20
		return f.bytes()
	default: // 'd' for an unknown station, empty
		return agwFrame{Kind: 'd', From: "NOBODY", To: c13MyCall}.bytes()
	}
}

func c13Harness(sc c13Scn, o *c13Obs) func() {
	return func() {
		*o = c13Obs{}
		sim := &tncSim{cfg: sc}
		sim.stage = func() string { return o.stage }
		o.sim = sim
		P := byte(sc.Port)
		vnet.OnPipe = func(cl, sv *vnet.TCPConn) { cl.SetReadSeg(c13Seg(sc.Seg)) }
		ready := false
		vnet.DialHook[c13Addr] = func(cl, sv *vnet.TCPConn) error {
			sim.conn = sv
			ready = true
			return nil
		}
		// TNC: one thread answers host frames, one pushes the unsolicited ones
		vs.GoNamed("tnc-reader", false, func() {
			vs.WaitUntil("host connects", func() bool { return ready })
			for {
				f, err := readAgwFrame(sim.conn)
				if err != nil {
					return
				}
				sim.handle(f)
			}
		})
		appReading, allSent := false, false
		vs.GoNamed("tnc-pusher", false, func() {
			vs.WaitUntil("link up", func() bool {
				return sim.connected && (sc.Redial != 1 || sim.connects >= 2) || sc.Kind == "malformed" && (sim.regSeen || sc.MalWhen == 3) || sc.HS == "inbound-connect" && sim.regSeen
			})
			if sc.HS == "inbound-connect" || sc.HS == "inbound-nobody" {
				if sc.HS == "inbound-connect" {
					// an inbound call that arrives while nobody is in Accept is refused by design:
					// wait until the application is parked in Accept
					vs.WaitUntil("application in Accept", func() bool { return o.stage == "accept" })
					vs.WaitQuiescent()
				}
				sim.send(agwFrame{Port: P, Kind: 'C', From: c13Target, To: c13MyCall, Data: []byte("*** CONNECTED To Station " + c13MyCall + "\r")})
				vs.WaitUntil("accepted", func() bool { return o.accepted || o.appDone })
			}
			if sc.Kind == "malformed" {
				switch sc.MalWhen {
				case 1:
					vs.WaitUntil("port is open", func() bool { return o.stage == "opened" || o.appDone })
				case 3:
					vs.WaitUntil("tnc is open", func() bool { return o.stage == "tnc-open" || o.appDone })
				case 2:
					vs.WaitUntil("application reads", func() bool { return sim.connected && o.stage == "read" || o.appDone })
					vs.WaitQuiescent()
				}
				sim.conn.Write(c13Malformed(sc.Mal))
				if sc.Mal == 2 || sc.Mal == 4 || sc.Mal == 7 {
					sim.conn.Close()
				}
				return
			}
			var all []byte
			push := func(f agwFrame) {
				if sc.OneWrite {
					all = append(all, f.bytes()...)
				} else {
					if !sc.Burst {
						vs.WaitQuiescent() // a paced TNC: the host has digested the previous frame
					}
					sim.send(f)
				}
			}
			for k, n := range sc.Frames {
				if sc.Late > 0 && k == sc.Late && !sc.OneWrite {
					vs.WaitUntil("reader has started", func() bool { return appReading })
				}
				if sc.Foreign&1 != 0 {
					push(agwFrame{Port: P, Kind: 'D', PID: 0xf0, From: "SM0XYZ", To: "OTHER", Data: []byte("foreign station")})
				}
				if sc.Foreign&4 != 0 { // stations whose callsign extends / is a prefix of the peer's
					push(agwFrame{Port: P, Kind: 'D', PID: 0xf0, From: c13Target + "1", To: "OTHER", Data: []byte("foreign station (longer call)")})
					push(agwFrame{Port: P, Kind: 'D', PID: 0xf0, From: "OTHER", To: c13Target[:6], Data: []byte("foreign station (shorter call)")})
					push(agwFrame{Port: P, Kind: 'D', PID: 0xf0, From: "LA1B", To: c13MyCall + "-9", Data: []byte("foreign station (other ssid)")})
				}
				if sc.Foreign&2 != 0 {
					push(agwFrame{Port: P ^ 1, Kind: 'D', PID: 0xf0, From: c13Target, To: c13MyCall, Data: []byte("other port")})
				}
				push(agwFrame{Port: P, Kind: 'D', PID: 0xf0, From: c13Target, To: c13MyCall, Data: c13Payload(k, n)})
			}
			if sc.Late != -2 {
				allSent = true
			}
			if sc.Kind == "inbound" {
				push(agwFrame{Port: P, Kind: 'd', From: c13Target, To: c13MyCall, Data: []byte("*** DISCONNECTED From " + c13Target + "\r")})
			}
			if sc.Late == -2 && !sc.OneWrite { // the reader starts only after the disconnect has been digested
				vs.WaitQuiescent()
				allSent = true
			}
			if sc.OneWrite {
				sim.conn.Write(all)
				if sc.Late == -2 {
					vs.WaitQuiescent()
					allSent = true
				}
			}
		})
		vs.GoNamed("application", true, func() {
			defer func() { o.appDone = true }()
			o.stage = "open"
			var tp *agwpe.TNCPort
			var err error
			if sc.Kind == "malformed" && sc.MalWhen == 3 {
				// OpenPortTCP's two steps taken apart: the TNC misbehaves right after the TCP connect and the
				// library has digested that before the port is registered
				var t *agwpe.TNC
				if t, err = agwpe.OpenTCP(c13Addr); err == nil {
					o.stage = "tnc-open"
					vs.WaitQuiescent()
					var p *agwpe.Port
					if p, err = t.RegisterPort(sc.Port, c13MyCall); err == nil {
						tp = &agwpe.TNCPort{TNC: *t, Port: *p}
					} else {
						t.Close()
					}
				}
			} else {
				tp, err = agwpe.OpenPortTCP(c13Addr, sc.Port, c13MyCall)
			}
			o.openErr = err
			if err != nil {
				return
			}
			if sc.DieAfter > 0 {
				defer tp.Close() // the application cleans up whatever happened - possibly while the library notices the loss
			}
			var conn net.Conn
			switch sc.HS {
			case "inbound-connect":
				o.stage = "accept"
				ln, err := tp.Listen()
				if err != nil {
					o.acceptErr = err
					return
				}
				conn, err = ln.Accept()
				o.acceptErr = err
				o.accepted = err == nil
				if err != nil {
					return
				}
			case "inbound-nobody":
				vtime.Sleep(5 * time.Second) // nobody calls Accept
				o.accepted = true
				tp.Close()
				return
			case "version":
				o.version, o.dialErr = tp.Version()
				return
			default:
				if sc.Kind == "malformed" && sc.MalWhen == 1 {
					// the TNC misbehaves between RegisterPort and the first dial: let the library digest it
					o.stage = "opened"
					vs.WaitQuiescent()
				}
				o.stage = "dial"
				ctx := vcontext.Background()
				switch sc.Redial {
				case 1: // an earlier session with the same station: opened, closed
					if c0, err := tp.DialContext(ctx, c13Target, sc.digis()...); err == nil {
						c0.Close()
						vs.WaitQuiescent()
						sim.connected = false
					} else {
						o.dialErr = fmt.Errorf("the earlier session: %w", err)
						tp.Close()
						return
					}
				case 2: // an earlier dial that the station refused
					if c0, err := tp.DialContext(ctx, c13Target, sc.digis()...); err == nil {
						c0.Close()
						o.dialErr = fmt.Errorf("the refused dial succeeded")
						tp.Close()
						return
					}
					vs.WaitQuiescent()
				}
				if sc.HS == "connect-silent" {
					c, cancel := vcontext.WithTimeout(ctx, 20*time.Second)
					defer cancel()
					ctx = c
				}
				cancelDial := func() {}
				if sc.CtxCancel {
					ctx, cancelDial = vcontext.WithCancel(ctx)
				}
				conn, err = tp.DialContext(ctx, c13Target, sc.digis()...)
				o.dialErr = err
				if err != nil {
					tp.Close()
					return
				}
				cancelDial() // the context governs the dial only: the connection lives on
				if sc.CtxCancel {
					vs.WaitQuiescent()
				}
				vs.Mark("connected")
			}
			switch sc.Kind {
			case "inbound", "handshake":
				o.stage = "read"
				if sc.Late < 0 { // the reader only starts when the (paced) TNC has sent all its data frames (-2: and the disconnect)
					vs.WaitUntil("tnc has sent all data frames", func() bool { return allSent })
				}
				appReading = true
				size := sc.ReadBuf
				if size == 0 {
					size = 4096
				}
				buf := make([]byte, size)
				want := 0
				for _, n := range sc.Frames {
					want += n
				}
				for sc.Kind == "inbound" || len(o.read) < want {
					if sc.CloseAfter > 0 && len(o.read) >= sc.CloseAfter {
						break
					}
					n, err := conn.Read(buf)
					o.read = append(o.read, buf[:n]...)
					if err != nil {
						o.readErr = err
						break
					}
				}
				if sc.CloseAfter > 0 { // hang up and shut down under incoming traffic
					o.stage = "close"
					o.closeErr = conn.Close()
					o.stage = "close-port"
					tp.Close()
				}
				if sc.Kind == "handshake" {
					o.stage = "close"
					o.closeErr = conn.Close()
				}
			case "outbound":
				o.stage = "write"
				for k, n := range sc.Chunks {
					p := c13Payload(k, n)
					m, err := conn.Write(p)
					o.wrote = append(o.wrote, p[:m]...)
					if err != nil {
						o.writeErr = err
						return
					}
				}
				o.stage = "flush"
				o.flushErr = conn.(interface{ Flush() error }).Flush()
				o.flushedAt = sim.outstanding
				o.stage = "close"
				o.closeErr = conn.Close()
			case "malformed":
				o.stage = "read"
				buf := make([]byte, 4096)
				conn.SetReadDeadline(vs.Now().Add(10 * time.Second))
				for {
					n, err := conn.Read(buf)
					o.read = append(o.read, buf[:n]...)
					if err != nil {
						o.readErr = err
						break
					}
				}
			}
			o.stage = "done"
		})
		vs.WaitUntil("application done", func() bool { return o.appDone })
	}
}

func c13Wanted(sc c13Scn) []byte {
	var want []byte
	for k, n := range sc.Frames {
		want = append(want, c13Payload(k, n)...)
	}
	return want
}

// closeSendRaces: a channel send that is not ordered with the close of the channel panics in another
// schedule ("send on closed channel" ends the process) - reported from every schedule in which the
// two are seen unordered.
func closeSendRaces(res *vs.Result) (out [][2]string) {
	for _, rc := range res.Races {
		if rc.Loc != "chan.close-vs-send" {
			continue
		}
		sender, closer := rc.ASite, rc.BSite
		if rc.AWrite {
			sender, closer = closer, sender
		}
		out = append(out, [2]string{"possible-send-on-closed-channel|" + sender, fmt.Sprintf("the send in %s (thread %s) and the close in %s (thread %s) are not ordered by happens-before: in another schedule the send panics", sender, rc.A, closer, rc.B)})
	}
	return
}

type c13Finding struct{ Class, Detail string }

const c13DropSite = "demux.Enqueue"

func c13Judge(sc c13Scn, o *c13Obs, res *vs.Result) (out []c13Finding, poisoned bool) {
	add := func(c, format string, a ...any) { out = append(out, c13Finding{c, fmt.Sprintf(format, a...)}) }
	// event finding: the non-blocking enqueue dropped a frame
	for site, n := range res.DefaultsTaken {
		if strings.Contains(site, ":"+c13DropSite+":") && n > 0 {
			poisoned = true
		}
	}
	if res.Outcome == "panic" {
		add("panic|"+res.Panic.Site, "%s (thread %s)", res.Panic.Value, res.Panic.Thread)
		return
	}
	for _, f := range closeSendRaces(res) {
		add(f[0], "%s", f[1])
	}
	if poisoned {
		add("frame-dropped|"+c13DropSite, "the demultiplexer's non-blocking enqueue took its default branch and dropped a TNC frame (%d times); outcome %s at stage %s", sumDefaults(res.DefaultsTaken, c13DropSite), res.Outcome, o.stage)
		return
	}
	sim := o.sim
	for _, c := range sim.complaints {
		cl := "host-frame-malformed"
		if strings.Contains(c, "carries port") {
			cl = "host-frame-wrong-port|" + c[1:2]
		}
		add(cl, "%s", c)
	}
	if sc.YBad > 0 && sc.YBadClose && res.Outcome == "done" && o.stage == "done" && !sim.dSeen {
		// whatever the flush inside Close runs into, closing performs the disconnect exchange
		add("close-without-disconnect", "Close returned %v after malformed answers to its flush polls, the TNC never received a 'd' frame", o.closeErr)
	}
	if sc.Kind == "malformed" || sc.YBad > 0 {
		return // otherwise only "never crashes the process" is demanded for malformed TNC input
	}
	if res.Outcome != "done" {
		add("application-call-never-returns|"+o.stage, "%s: %+v", res.Outcome, res.Blocked)
		return
	}
	if sc.DieAfter > 0 {
		return // a TNC that goes away: every call returns (with an error), nothing crashes
	}
	switch sc.Kind {
	case "inbound":
		if o.openErr != nil || o.dialErr != nil {
			add("setup-fails", "open: %v dial: %v", o.openErr, o.dialErr)
			return
		}
		if sc.CloseAfter > 0 {
			if !bytes.HasPrefix(c13Wanted(sc), o.read) {
				add("inbound-stream-altered", "Read returned %d bytes that are not a prefix of what the connection's frames carry", len(o.read))
			}
			return // beyond that: every call returns and nothing crashes
		}
		var want []byte
		for k, n := range sc.Frames {
			want = append(want, c13Payload(k, n)...)
		}
		if !bytes.Equal(o.read, want) {
			d := 0
			for d < len(o.read) && d < len(want) && o.read[d] == want[d] {
				d++
			}
			shape := "altered"
			switch {
			case len(o.read) < len(want) && bytes.HasPrefix(want, o.read):
				shape = "truncated"
			case bytes.Contains(o.read, []byte("foreign station")) || bytes.Contains(o.read, []byte("other port")):
				shape = "foreign-data-delivered"
			}
			add("inbound-stream-"+shape, "Read returned %d bytes, the connection's frames carry %d (first difference at %d; read error %v)", len(o.read), len(want), d, o.readErr)
		} else if o.readErr != io.EOF {
			add("inbound-no-eof", "after the disconnect frame Read returned %v", o.readErr)
		}
	case "outbound":
		if o.openErr != nil || o.dialErr != nil {
			add("setup-fails", "open: %v dial: %v", o.openErr, o.dialErr)
			return
		}
		if o.writeErr != nil || o.flushErr != nil || o.closeErr != nil {
			add("outbound-error", "write: %v flush: %v close: %v", o.writeErr, o.flushErr, o.closeErr)
		}
		if !bytes.Equal(sim.written, o.wrote) {
			add("outbound-stream-mismatch", "TNC received %d payload bytes, application wrote %d", len(sim.written), len(o.wrote))
		}
		if o.flushErr == nil && o.flushedAt != 0 {
			add("flush-returns-early", "Flush returned while the TNC still had %d outstanding frames", o.flushedAt)
		}
		if !sim.dSeen && o.closeErr == nil {
			add("close-without-disconnect", "Close returned nil but the TNC never received a 'd' frame")
		}
		if sim.polls == 0 {
			add("no-outstanding-poll", "")
		}
	case "handshake":
		if sc.HS != "x-refused" && sc.HS != "no-g" && o.openErr != nil {
			add("setup-fails", "open: %v", o.openErr)
			return
		}
		switch sc.HS {
		case "no-g":
			// a TNC that does not answer 'g': the property does not say whether registration must
			// still succeed (the library uses one 10 s context for both exchanges and fails)
		case "x-refused":
			if o.openErr == nil {
				add("registration-refusal-ignored", "")
			}
		case "connect-refused", "connect-silent":
			if o.dialErr == nil {
				add("dial-succeeds-without-connect", sc.HS)
			}
		case "version":
			if o.version != "1.6" {
				add("version", "%q %v", o.version, o.dialErr)
			}
		case "inbound-nobody":
		default:
			if o.openErr != nil || o.dialErr != nil || o.acceptErr != nil {
				add("setup-fails", "open: %v dial: %v accept: %v", o.openErr, o.dialErr, o.acceptErr)
				return
			}
			var want []byte
			for k, n := range sc.Frames {
				want = append(want, c13Payload(k, n)...)
			}
			if !bytes.Equal(o.read, want) {
				add("inbound-stream-altered", "Read returned %d bytes, want %d", len(o.read), len(want))
			}
			if sc.HS != "inbound-connect" && sim.connectKind != map[bool]byte{false: 'C', true: 'v'}[sc.Digis > 0] {
				add("wrong-connect-frame-kind", "%c", sim.connectKind)
			}
			if !sim.dSeen {
				add("close-without-disconnect", "Close: %v", o.closeErr)
			}
		}
	case "malformed":
		// only "never crashes" (and returns): judged above
	}
	return
}

func sumDefaults(m map[string]int, fn string) int {
	n := 0
	for site, k := range m {
		if strings.Contains(site, ":"+fn+":") {
			n += k
		}
	}
	return n
}

func c13Scenarios(thorough bool) []c13Scn {
	var out []c13Scn
	frameSets := [][]int{{1}, {2, 255}, {256, 300, 1}, {5, 5, 5, 5}}
	for _, port := range []int{0, 1} {
		for fi, fs := range frameSets {
			for _, foreign := range []int{0, 3} {
				for _, rb := range []int{0, 1, 300} {
					for _, seg := range []int{0, 1, 3} {
						if !thorough && (port == 1 && (fi != 1 || seg == 1) || rb == 1 && fi > 1 || seg == 1 && fi > 1 || foreign == 0 && fi > 1 && rb != 0) {
							continue
						}
						out = append(out, c13Scn{Kind: "inbound", Port: port, Frames: fs, Foreign: foreign, ReadBuf: rb, Seg: seg, DropEvery: 1})
					}
				}
			}
		}
	}
	// every single cut offset of the TNC->host stream for one small scenario (mid-header and mid-data);
	// the enumerated dimension is the segmentation, explored under the default schedule only
	base := c13Scn{Kind: "inbound", Frames: []int{3, 40}, ReadBuf: 0, DropEvery: 1}
	total := 36*6 + 1 + 12 + 26 + 8 + 3 + 40 + 31 // generous upper bound of the stream length
	for cut := 1; cut < total; cut++ {
		s := base
		s.Seg = 3 + cut
		out = append(out, s)
	}
	// small scenarios explored one deviation deeper (set-up on the default schedule, every schedule
	// with up to two - thorough three - deviations from the established connection on)
	out = append(out,
		c13Scn{Kind: "outbound", Chunks: []int{1}, DropEvery: 1, Deep: true},
		c13Scn{Kind: "outbound", Chunks: []int{300}, DropEvery: 2, Deep: true},
		c13Scn{Kind: "inbound", Frames: []int{4}, DropEvery: 1, Deep: true},
		c13Scn{Kind: "inbound", Frames: []int{4, 4}, DropEvery: 1, Deep: true},
		c13Scn{Kind: "inbound", Frames: []int{4}, ReadBuf: 1, DropEvery: 1, Deep: true})
	// bursts and late readers: the pipeline holds 10 + 1 + 1 frames
	for _, k := range []int{1, 2, 3, 5, 11, 12, 13, 14} {
		fs := make([]int, k)
		for i := range fs {
			fs[i] = 4
		}
		out = append(out, c13Scn{Kind: "inbound", Frames: fs, OneWrite: true, DropEvery: 1}, c13Scn{Kind: "inbound", Frames: fs, Late: 1, Burst: true, DropEvery: 1}, c13Scn{Kind: "inbound", Frames: fs, Burst: true, DropEvery: 1})
	}
	// a reader that starts late while a paced TNC fills the connection's queue (up to its 10 slots)
	for _, fs := range [][]int{{64, 32}, {8, 8, 8}, {300, 1, 255, 2}, {5, 6, 7, 8, 9, 10, 11, 12, 13, 14}} {
		for _, foreign := range []int{0, 4} {
			out = append(out, c13Scn{Kind: "inbound", Frames: fs, Late: -1, Foreign: foreign, DropEvery: 1}, c13Scn{Kind: "inbound", Frames: fs, Late: -1, Foreign: foreign, ReadBuf: 7, DropEvery: 1},
				c13Scn{Kind: "inbound", Frames: fs, Late: -2, Foreign: foreign, DropEvery: 1}, c13Scn{Kind: "inbound", Frames: fs, Late: -2, Foreign: foreign, ReadBuf: 7, DropEvery: 1})
		}
	}
	for _, port := range []int{0, 1} {
		out = append(out, c13Scn{Kind: "inbound", Port: port, Frames: []int{9, 9}, Foreign: 7, DropEvery: 1})
	}
	for _, port := range []int{0, 1} {
		for _, ch := range [][]int{{1}, {10, 20}, {255, 256, 1}} {
			for _, drop := range []int{1, 2, 3} {
				if !thorough && port == 1 && drop > 1 {
					continue
				}
				out = append(out, c13Scn{Kind: "outbound", Port: port, Chunks: ch, DropEvery: drop})
			}
		}
	}
	for _, port := range []int{0, 1} {
		for _, hs := range []string{"x-refused", "no-g", "connect-refused", "connect-silent", "inbound-connect", "inbound-nobody", "version", "plain"} {
			out = append(out, c13Scn{Kind: "handshake", Port: port, HS: hs, Frames: []int{7}, DropEvery: 1})
		}
		for d := 1; d <= 2; d++ {
			out = append(out, c13Scn{Kind: "handshake", Port: port, HS: "plain", Digis: d, Frames: []int{7}, DropEvery: 1})
		}
	}
	// a second session with the same station on one port (what the first one leaves behind must not get
	// in the way), and the MAXFRAME values of the 'g' reply
	for _, rd := range []int{1, 2} {
		out = append(out, c13Scn{Kind: "outbound", Chunks: []int{300, 1}, DropEvery: 1, Redial: rd}, c13Scn{Kind: "inbound", Frames: []int{5, 6}, DropEvery: 1, Redial: rd})
	}
	for _, ow := range []bool{false, true} { // the application hangs up and shuts the port down while the TNC is still sending
		out = append(out, c13Scn{Kind: "inbound", Frames: []int{5, 6, 7, 8}, DropEvery: 1, Burst: true, OneWrite: ow, CloseAfter: 5})
	}
	for k := 1; k <= 8; k++ { // the TNC is lost while the application registers, dials, writes, flushes, closes
		out = append(out, c13Scn{Kind: "outbound", Chunks: []int{300, 1}, DropEvery: 1, DieAfter: k}, c13Scn{Kind: "inbound", Frames: []int{5}, DropEvery: 1, DieAfter: k})
	}
	for _, dg := range []int{0, 1} { // the dial context ends once the dial has returned
		out = append(out, c13Scn{Kind: "outbound", Chunks: []int{300, 1}, DropEvery: 1, CtxCancel: true, Digis: dg}, c13Scn{Kind: "inbound", Frames: []int{5, 6}, DropEvery: 1, CtxCancel: true, Digis: dg})
	}
	for _, mf := range []int{-1, 1, 2, 7} {
		out = append(out, c13Scn{Kind: "outbound", Chunks: []int{300, 300, 1}, DropEvery: 1, MaxFrame: mf}, c13Scn{Kind: "outbound", Chunks: []int{1}, DropEvery: 2, MaxFrame: mf})
	}
	for _, yb := range []int{2, 3} {
		out = append(out, c13Scn{Kind: "outbound", Chunks: []int{1}, DropEvery: 1, YBad: yb, YBadClose: true}, c13Scn{Kind: "outbound", Chunks: []int{300, 300}, DropEvery: 1, YBad: yb, YBadClose: true})
	}
	for yb := 1; yb <= 4; yb++ { // malformed answers to the host's own polls (Write pacing, Flush, Close)
		out = append(out, c13Scn{Kind: "outbound", Chunks: []int{1}, DropEvery: 1, YBad: yb}, c13Scn{Kind: "outbound", Chunks: []int{300, 300}, DropEvery: 2, YBad: yb})
	}
	for m := 0; m <= 8; m++ {
		out = append(out, c13Scn{Kind: "malformed", Mal: m, DropEvery: 1}, c13Scn{Kind: "malformed", Mal: m, Seg: 1, DropEvery: 1})
		out = append(out, c13Scn{Kind: "malformed", Mal: m, MalWhen: 1, DropEvery: 1}, c13Scn{Kind: "malformed", Mal: m, MalWhen: 2, DropEvery: 1}, c13Scn{Kind: "malformed", Mal: m, MalWhen: 3, DropEvery: 1})
	}
	return out
}

func C13(args []string) {
	r := core.Begin("C13", "model_checking", args)
	var o c13Obs
	if p := replayPath(args); p != "" {
		var f struct {
			Case c13Scn `json:"case"`
		}
		readJSONFile(p, &f)
		res := vs.Run(vs.Config{Choices: f.Case.Choices, Horizon: 5 * time.Minute, MaxSteps: 20000, NoTimerFirst: true}, c13Harness(f.Case, &o))
		fs, poisoned := c13Judge(f.Case, &o, &res)
		fmt.Printf("%s choices %v: outcome %s stage %s poisoned=%v read=%q\n", f.Case.describe(), f.Case.Choices, res.Outcome, o.stage, poisoned, core.Trunc(string(o.read), 80))
		for _, fd := range fs {
			fmt.Printf("class=%q %s\n", fd.Class, fd.Detail)
		}
		return
	}
	scns := c13Scenarios(r.Thorough())
	deepBound := 0
	if v := os.Getenv("VERIF_DEEP_BOUND"); v != "" { // development aid: only the deep scenarios, to the given bound
		fmt.Sscan(v, &deepBound)
		var only []c13Scn
		for _, sc := range scns {
			if sc.Deep {
				only = append(only, sc)
			}
		}
		scns = only
	}
	maxBound := 1
	if r.Thorough() {
		maxBound = 2
	}
	devBound := 0
	if v := os.Getenv("VERIF_ONLY"); v != "" { // development aid: only the scenarios whose description contains the text, to VERIF_BOUND
		var only []c13Scn
		for _, sc := range scns {
			if strings.Contains(sc.describe(), v) {
				only = append(only, sc)
			}
		}
		scns = only
		fmt.Sscan(os.Getenv("VERIF_BOUND"), &devBound)
	}
	r.Sharded(len(scns), func(i int) {
		sc := scns[i]
		// timers fire only when every thread is blocked: timeouts that expire early under a
		// "timer lands first" deviation are legitimate behaviour, not findings
		e := &vs.Explorer{Harness: c13Harness(sc, &o), Mode: vs.DelayBounded, Cfg: vs.Config{Horizon: 5 * time.Minute, MaxSteps: 20000, NoTimerFirst: true}, MaxExec: 1500}
		if r.Thorough() {
			e.MaxExec = 60000
		}
		maxBound := maxBound
		if sc.Seg > 3 {
			maxBound = 0
		}
		if sc.Deep {
			e.FromMark, e.MaxExec = "connected", 80000
			maxBound++
			if deepBound > 0 {
				maxBound, e.MaxExec = deepBound, 3000000
			}
		}
		if devBound > 0 {
			maxBound, e.MaxExec = devBound, 3000000
		}
		if sc.Kind == "malformed" && (sc.Mal == 3 || sc.Mal == 7) {
			maxBound, e.MaxExec = 0, 20 // the library allocates the announced DataLen (up to 4 GiB) per execution
		}
		e.Check = func(choices []int, res *vs.Result) {
			r.Evals.Add(1)
			r.Heartbeat()
			fs, poisoned := c13Judge(sc, &o, res)
			if poisoned {
				r.Add("poisoned_by_known_finding", 1)
			}
			for _, fd := range fs {
				v := sc
				v.Choices = append([]int{}, choices...)
				r.Violation("C13|"+fd.Class, sc.describe()+": "+fd.Detail, v)
			}
			r.Key(res.Outcome + "/" + o.stage)
		}
		completed := e.RunIterative(maxBound)
		if e.Capped {
			r.Cap("scenario %s: exploration capped inside deviation bound %d after %d schedules (bound %d completed)", sc.describe(), e.Bound, e.Execs, completed)
		}
		r.Nontrivial.Add(int64(e.Interleaved))
		r.Add("schedules", int64(e.Execs))
		r.Add("visible_steps", e.Steps)
		r.Add("states", int64(len(e.States)))
		r.Add("replayed_identically", int64(e.Replayed))
		if i%25 == 0 {
			r.Sample(map[string]any{"scenario": sc.describe(), "schedules": e.Execs, "bound_completed": completed, "max_choice_points": e.MaxPoints})
		}
	}, core.ShardOpts{Watchdog: 600 * time.Second})
	add := r.Added()
	r.Finish(core.Coverage{
		"states":                        add["states"],
		"transitions":                   add["visible_steps"],
		"traces_validated_against_impl": add["replayed_identically"],
		"distinct_nontrivial":           r.Nontrivial.Load(),
		"rule":                          "one evaluation = one schedule of the rewritten agwpe package (TNC read loop, demultiplexer chain, connection and application threads) against the reference TNC simulator for one scenario and TNC->host segmentation plan; non-trivial = schedules in which at least two threads were enabled at once",
		"scenarios":                     len(scns), "schedules": add["schedules"], "deviation_bound": maxBound, "poisoned_by_known_finding": add["poisoned_by_known_finding"],
	}, []string{
		"delay-bounded exploration: every departure from the default schedule / select choice / timer order costs one deviation (iteratively 0..bound)",
		"TNC model: after a D frame the outstanding count stays >= 1 until a poll has reported it",
		"unsynchronised struct fields (Conn.closing) are outside the race oracle; C13 does not claim race freedom",
	})
}
