package gprops

import (
	"bufio"
	"bytes"
	"encoding/binary"
	"fmt"
	"io"
	"net"
	"os"
	"strings"
	"time"

	"github.com/la5nta/wl2k-go/transport/ardop"

	"verif/core"
	"verif/vs"
	"verif/vs/vnet"
	"verif/vs/vtime"
)

func init() {
	Registry["C14"] = C14
}

// ---- reference ARDOP host-interface codec (DESIGN.md App. C) -----------------------------------

// ardopCRC: 16-bit register seeded 0xFFFF; the message bits are shifted in MSB first; whenever the
// bit shifted out is 1 the register is XORed with 0x8810. Written over an explicit bit string.
func ardopCRC(p []byte) uint16 {
	reg := uint32(0xffff)
	for i := 0; i < len(p)*8; i++ {
		bit := uint32(p[i/8]>>(7-uint(i%8))) & 1
		reg = reg<<1 | bit
		if reg&0x10000 != 0 {
			reg ^= 0x8810
		}
		reg &= 0xffff
	}
	return uint16(reg)
}

func init() {
	// anchor: the vectors of the repository's fixed baseline test
	for s, want := range map[string]uint16{"RDY\r": 55805, "voluptatem accusantium": 24749, "hagavik": 44843, "Lorem ipsum dolor sit amet, consectetur adipiscing elit, sed do eiusmod tempor": 50066} {
		if got := ardopCRC([]byte(s)); got != want {
			panic(fmt.Sprintf("reference ARDOP CRC does not reproduce the vector %q: %d != %d", s, got, want))
		}
	}
}

func be16(n int) []byte { return []byte{byte(n >> 8), byte(n)} }

// TNC -> host frames
func ardopCtrl(serial bool, text string) []byte {
	body := []byte(text + "\r")
	if !serial {
		return body
	}
	out := append([]byte("c:"), body...)
	return append(out, be16(int(ardopCRC(body)))...)
}

func ardopData(serial bool, tag string, payload []byte) []byte {
	body := append(be16(len(payload)+3), append([]byte(tag), payload...)...)
	if !serial {
		return body
	}
	out := append([]byte("d:"), body...)
	return append(out, be16(int(ardopCRC(body)))...)
}

// ---- TNC simulator -----------------------------------------------------------------------------

type c14Scn struct {
	Kind     string `json:"kind"` // open | dial | inbound | outbound | listen | malformed | ptt
	Serial   bool   `json:"serial"`
	Offline  bool   `json:"offline"`
	Dial     string `json:"dial,omitempty"`   // connected | fault | disc
	Frames   []int  `json:"frames,omitempty"` // inbound ARQ payload sizes
	ReadBuf  int    `json:"read_buf"`
	LateRead bool   `json:"late_read"` // the application starts reading only after the TNC has delivered everything and disconnected
	Seg      int    `json:"seg"`
	Writes   []int  `json:"writes,omitempty"`
	CRCFault int    `json:"crcfault"`  // CRCFAULT answers to the first data frame (serial)
	BufOrder int    `json:"buf_order"` // 0: BUFFER n, PTT TRUE, BUFFER 0, PTT FALSE back to back; 1: BUFFER n, pause, BUFFER 0; 2: BUFFER n, n/2, 0 back to back
	CloseAns int    `json:"close_ans"` // 0 DISCONNECTED, 1 NEWSTATE DISC, 2 silence
	Mal      int    `json:"mal"`
	Mixed    bool   `json:"mixed,omitempty"`     // FEC and ERR data frames (and an ID frame) arrive between the ARQ frames: they are not part of the connection's stream
	Early    bool   `json:"early,omitempty"`     // serial mode: the first ARQ frame follows CONNECTED at once (the remote's banner), before the host's next command is answered
	DieAfter int    `json:"die_after,omitempty"` // the TNC answers this many host commands and is gone right behind the last answer (link lost, process killed)
	Flood    int    `json:"flood,omitempty"`     // inbound: the TNC delivers this many 6-byte ARQ frames in one go (more than the library queues) while the application reads
	Second   bool   `json:"second,omitempty"`    // listen: after the first session has ended a second station calls the same listener
	Deep     bool   `json:"deep,omitempty"`      // small scenario explored one deviation deeper, also in the quick tier
	Choices  []int  `json:"choices,omitempty"`
}

func (s c14Scn) describe() string {
	mode := "tcp"
	if s.Serial {
		mode = "serial"
	}
	return fmt.Sprintf("%s %s offline=%v dial=%s frames=%v readbuf=%d late=%v seg=%s writes=%v crcfault=%d buforder=%d closeans=%d mal=%d",
		s.Kind, mode, s.Offline, s.Dial, s.Frames, s.ReadBuf, s.LateRead, c13SegName(s.Seg), s.Writes, s.CRCFault, s.BufOrder, s.CloseAns, s.Mal) + map[bool]string{true: " early-frame", false: ""}[s.Early] + map[bool]string{true: " mixed-frame-types", false: ""}[s.Mixed] + map[bool]string{true: " then-a-second-caller", false: ""}[s.Second] + map[bool]string{true: fmt.Sprintf(" flood=%d", s.Flood)}[s.Flood > 0] + map[bool]string{true: fmt.Sprintf(" tnc-gone-after-%d-commands", s.DieAfter)}[s.DieAfter > 0]
}

type c14Sim struct {
	sc         c14Scn
	ctrl, data net.Conn // TNC side ends (serial: data == nil)
	complaints []string
	cmds       []string // command lines received
	dataGot    []byte   // payload bytes accepted
	frames     [][]byte // raw data frames received (for retransmission identity)
	crcLeft    int
	connected  bool
	mycall     string
	disconnect bool
	listen     bool
	earlySent  bool
}

func (t *c14Sim) complain(format string, a ...any) {
	t.complaints = append(t.complaints, fmt.Sprintf(format, a...))
}

func (t *c14Sim) say(text string) { t.ctrl.Write(ardopCtrl(t.sc.Serial, text)) }

// early sends the first ARQ frame right behind CONNECTED (same serial stream, so the order is fixed).
func (t *c14Sim) early() {
	if t.sc.Early && t.sc.Serial && len(t.sc.Frames) > 0 && !t.earlySent {
		t.earlySent = true
		t.sendARQ(c13Payload(0, t.sc.Frames[0]))
	}
}

func (t *c14Sim) sendARQ(payload []byte) {
	c := t.data
	if t.sc.Serial {
		c = t.ctrl
	}
	c.Write(ardopData(t.sc.Serial, "ARQ", payload))
}

// command handles one host command line.
func (t *c14Sim) command(line string) {
	t.cmds = append(t.cmds, line)
	f := strings.SplitN(line, " ", 2)
	cmd := strings.ToUpper(f[0])
	arg := ""
	if len(f) > 1 {
		arg = f[1]
	}
	switch cmd {
	case "INITIALIZE":
		t.say("INITIALIZE")
	case "STATE":
		if t.sc.Offline {
			t.say("STATE OFFLINE")
		} else {
			t.say("STATE DISC")
		}
	case "MYCALL":
		if arg == "" {
			t.say("MYCALL " + t.mycall)
		} else {
			t.mycall = arg
			t.say("MYCALL now " + arg)
		}
	case "LISTEN":
		t.listen = strings.EqualFold(arg, "true")
		t.say("LISTEN now " + arg)
	case "CODEC", "PROTOCOLMODE", "ARQTIMEOUT", "GRIDSQUARE", "ARQBW", "AUTOBREAK", "CWID", "MYAUX":
		if arg == "" {
			t.say(cmd + " x")
		} else {
			t.say(cmd + " now " + arg)
		}
	case "VERSION":
		t.say("VERSION ARDOP_Sim_1.0")
	case "ARQCALL":
		t.say("ARQCALL " + arg)
		switch t.sc.Dial {
		case "fault":
			t.say("FAULT not from state ISS")
		case "disc":
			t.say("NEWSTATE ISS")
			t.say("STATUS CONNECT TO N0PEER FAILED!")
			t.say("NEWSTATE DISC")
		default:
			t.say("NEWSTATE ISS")
			t.say("CONNECTED N0PEER 500")
			t.connected = true
			t.early()
		}
	case "DISCONNECT":
		t.disconnect = true
		switch t.sc.CloseAns {
		case 0:
			t.say("DISCONNECTED")
			t.say("NEWSTATE DISC")
		case 1:
			t.say("NEWSTATE DISC")
		}
	case "ABORT":
		t.say("ABORT")
		t.say("NEWSTATE DISC")
	case "SENDID":
		t.say("SENDID")
	default:
		t.complain("unexpected command %q", line)
	}
	if t.sc.DieAfter > 0 && len(t.cmds) == t.sc.DieAfter {
		t.ctrl.Close()
		if t.data != nil {
			t.data.Close()
		}
	}
}

// dataFrame handles one host data frame (already validated) and answers with BUFFER / CRCFAULT.
func (t *c14Sim) dataFrame(raw, payload []byte) {
	if t.crcLeft > 0 {
		t.crcLeft--
		t.frames = append(t.frames, raw)
		t.say("CRCFAULT")
		return
	}
	if n := len(t.frames); n > 0 && !bytes.Equal(t.frames[n-1], raw) {
		t.complain("frame retransmitted after CRCFAULT differs from the original (%d vs %d bytes)", len(raw), len(t.frames[n-1]))
	}
	t.frames = nil
	t.dataGot = append(t.dataGot, payload...)
	switch t.sc.BufOrder {
	case 0:
		t.say(fmt.Sprintf("BUFFER %d", len(payload)))
		t.say("PTT TRUE")
		t.say("BUFFER 0")
		t.say("PTT FALSE")
	case 1: // the transmission takes a while: BUFFER 0 comes when the host has digested BUFFER n
		t.say(fmt.Sprintf("BUFFER %d", len(payload)))
		vs.WaitQuiescent()
		t.say("BUFFER 0")
	default:
		t.say(fmt.Sprintf("BUFFER %d", len(payload)))
		t.say(fmt.Sprintf("BUFFER %d", len(payload)/2))
		t.say("BUFFER 0")
	}
}

// readHost parses the host -> TNC stream(s) strictly.
func (t *c14Sim) readSerial() {
	rd := bufio.NewReader(t.ctrl)
	for {
		p, err := rd.ReadByte()
		if err != nil {
			return
		}
		colon, err := rd.ReadByte()
		if err != nil {
			return
		}
		if colon != ':' || p != 'C' && p != 'D' {
			t.complain("host frame must start with C: or D:, got %q", []byte{p, colon})
			return
		}
		if p == 'C' {
			line, err := rd.ReadBytes('\r')
			if err != nil {
				return
			}
			var crc [2]byte
			if _, err := io.ReadFull(rd, crc[:]); err != nil {
				return
			}
			if binary.BigEndian.Uint16(crc[:]) != ardopCRC(line) {
				t.complain("command %q carries a wrong CRC", line)
			}
			t.command(strings.TrimSuffix(string(line), "\r"))
			continue
		}
		var l [2]byte
		if _, err := io.ReadFull(rd, l[:]); err != nil {
			return
		}
		n := int(binary.BigEndian.Uint16(l[:]))
		payload := make([]byte, n)
		if _, err := io.ReadFull(rd, payload); err != nil {
			return
		}
		var crc [2]byte
		if _, err := io.ReadFull(rd, crc[:]); err != nil {
			return
		}
		body := append(l[:], payload...)
		if binary.BigEndian.Uint16(crc[:]) != ardopCRC(body) {
			t.complain("data frame of %d bytes carries a wrong CRC", n)
		}
		t.dataFrame(append([]byte("D:"), append(body, crc[:]...)...), payload)
	}
}

func (t *c14Sim) readTCPCtrl() {
	rd := bufio.NewReader(t.ctrl)
	for {
		line, err := rd.ReadBytes('\r')
		if err != nil {
			return
		}
		t.command(strings.TrimSuffix(string(line), "\r"))
	}
}

func (t *c14Sim) readTCPData() {
	rd := bufio.NewReader(t.data)
	for {
		var l [2]byte
		if _, err := io.ReadFull(rd, l[:]); err != nil {
			return
		}
		n := int(binary.BigEndian.Uint16(l[:]))
		payload := make([]byte, n)
		if _, err := io.ReadFull(rd, payload); err != nil {
			return
		}
		t.dataFrame(append(l[:], payload...), payload)
	}
}

// ---- harness -----------------------------------------------------------------------------------

type pttRec struct{ calls []bool }

func (p *pttRec) SetPTT(on bool) error { p.calls = append(p.calls, on); return nil }

type c14Obs struct {
	sim         *c14Sim
	openErr     error
	dialErr     error
	read        []byte
	readErr     error
	read2       []byte
	readErr2    error
	acceptErr2  error
	wrote       []byte
	writeErr    error
	shortN      []int
	flushErr    error
	closeErr    error
	flushedWith int
	stage       string
	appDone     bool
	ptt         *pttRec
	acceptErr   error
}

const c14Ctrl, c14Data = "127.0.0.1:8515", "127.0.0.1:8516"

func c14Malformed(serial bool, k int) []byte {
	ctl := func(s string) []byte { return ardopCtrl(serial, s) }
	switch k {
	case 0: // value-less lines for commands that take an argument
		return bytes.Join([][]byte{ctl("BUFFER"), ctl("PTT"), ctl("NEWSTATE"), ctl("BUSY"), ctl("CONNECTED"), ctl("FAULT"), ctl("STATE"), ctl("MYCALL"), ctl("TARGET"), ctl("ARQTIMEOUT")}, nil)
	case 1: // unknown commands, empty line, garbage
		return bytes.Join([][]byte{ctl("FOOBAR 1 2 3"), ctl(""), ctl("   "), ctl("\x00\x01"), ctl("BUFFER notanumber"), ctl("NEWSTATE NOSUCHSTATE")}, nil)
	case 2, 3, 4, 5, 6: // d frames with length 0..4
		n := k - 2
		body := append(be16(n), bytes.Repeat([]byte("A"), n)...)
		if !serial {
			return body
		}
		return append(append([]byte("d:"), body...), be16(int(ardopCRC(body)))...)
	case 7: // length 65535
		body := append(be16(65535), append([]byte("ARQ"), bytes.Repeat([]byte("z"), 65532)...)...)
		if !serial {
			return body
		}
		return append(append([]byte("d:"), body...), be16(int(ardopCRC(body)))...)
	case 8: // length 65534
		body := append(be16(65534), append([]byte("ARQ"), bytes.Repeat([]byte("z"), 65531)...)...)
		if !serial {
			return body
		}
		return append(append([]byte("d:"), body...), be16(int(ardopCRC(body)))...)
	case 9: // wrong prefix byte (serial), bad CRC
		if serial {
			f := ardopCtrl(true, "BUFFER 5")
			f[len(f)-1] ^= 0xff
			return append([]byte("x:garbage\r"), f...)
		}
		return ctl("PTT maybe")
	case 10: // truncated frame then EOF handled by closing
		return ardopData(serial, "ARQ", []byte("truncated"))[:7]
	case 11: // a 100 000 byte line
		return ctl(strings.Repeat("A", 100000))
	default: // IDF / FEC / ERR frames
		return bytes.Join([][]byte{ardopData(serial, "IDF", []byte("ID: N0CALL [JO39EQ]")), ardopData(serial, "IDF", []byte("garbage")), ardopData(serial, "FEC", []byte("fec")), ardopData(serial, "ERR", []byte("err"))}, nil)
	}
}

func c14Harness(sc c14Scn, o *c14Obs) func() {
	return func() {
		*o = c14Obs{ptt: &pttRec{}}
		sim := &c14Sim{sc: sc, crcLeft: sc.CRCFault}
		o.sim = sim
		var hostCtrl io.ReadWriteCloser
		seg := c13Seg(sc.Seg)
		if sc.Serial {
			h, t := vnet.Pipe("host", "tnc")
			h.SetReadSeg(seg)
			sim.ctrl, hostCtrl = t, h
			vs.GoNamed("tnc-serial", false, sim.readSerial)
		} else {
			vnet.DialHook[c14Ctrl] = func(cl, sv *vnet.TCPConn) error {
				cl.SetReadSeg(seg)
				sim.ctrl = sv
				vs.GoFromScheduler("tnc-ctrl", sim.readTCPCtrl)
				return nil
			}
			vnet.DialHook[c14Data] = func(cl, sv *vnet.TCPConn) error {
				cl.SetReadSeg(seg)
				sim.data = sv
				vs.GoFromScheduler("tnc-data", sim.readTCPData)
				return nil
			}
		}
		vs.GoNamed("application", true, func() {
			defer func() { o.appDone = true }()
			o.stage = "open"
			var tnc *ardop.TNC
			var err error
			if sc.Serial {
				tnc, err = ardop.Open(hostCtrl, "N0MYC", "JO39EQ")
			} else {
				tnc, err = ardop.OpenTCP(c14Ctrl, "N0MYC", "JO39EQ")
			}
			o.openErr = err
			if err != nil || sc.Kind == "open" {
				return
			}
			tnc.SetPTT(o.ptt)
			if sc.DieAfter > 0 {
				defer tnc.Close() // whatever happens the application cleans up - possibly while the library notices the loss
			}
			var conn net.Conn
			if sc.Kind == "malformed-listen" {
				// value-less and odd notifications while a listener is active
				o.stage = "listen"
				ln, err := tnc.Listen()
				if err != nil {
					o.acceptErr = err
					return
				}
				vs.GoNamed("tnc-garbage", false, func() {
					vs.WaitQuiescent()
					lines := [][]string{
						{"TARGET N0MYC", "CONNECTED"}, {"TARGET", "CONNECTED N0PEER"}, {"PENDING", "CANCELPENDING", "CONNECTED N0PEER 500"},
						{"TARGET N0MYC", "CONNECTED  "}, {"TARGET N0MYC", "DISCONNECTED", "CONNECTED"}, {"TARGET N0MYC", "NEWSTATE", "CONNECTED x"},
					}[sc.Mal%6]
					for _, l := range lines {
						sim.say(l)
					}
					vs.WaitQuiescent()
					sim.ctrl.Close()
					if sim.data != nil {
						sim.data.Close()
					}
				})
				c, err := ln.Accept()
				o.acceptErr = err
				if c != nil {
					buf := make([]byte, 100)
					c.Read(buf)
				}
				return
			}
			var ln net.Listener
			if sc.Kind == "listen" {
				o.stage = "listen"
				ln, err = tnc.Listen()
				if err != nil {
					o.acceptErr = err
					return
				}
				vs.GoNamed("tnc-inbound-call", false, func() {
					vs.WaitQuiescent()
					sim.say("TARGET N0MYC")
					sim.say("NEWSTATE IRS")
					sim.say("CONNECTED N0PEER 500")
					sim.connected = true
					sim.early()
				})
				conn, err = ln.Accept()
				o.acceptErr = err
				if err != nil {
					return
				}
			} else {
				o.stage = "dial"
				conn, err = tnc.Dial("N0PEER")
				o.dialErr = err
				if err != nil {
					return
				}
			}
			if sc.Kind == "dial" {
				return
			}
			switch sc.Kind {
			case "inbound", "listen":
				o.stage = "read"
				arqDone := false
				vs.GoNamed("tnc-arq", false, func() {
					for k := 0; k < sc.Flood; k++ {
						sim.sendARQ(c13Payload(k%97, 6))
					}
					for k, n := range sc.Frames {
						if k == 0 && sim.earlySent {
							continue
						}
						vs.WaitQuiescent()
						if sc.Mixed {
							c := sim.data
							if sc.Serial {
								c = sim.ctrl
							}
							c.Write(ardopData(sc.Serial, "FEC", []byte("fec broadcast data, not for this connection")))
							c.Write(ardopData(sc.Serial, "ERR", []byte("frame with errors")))
							c.Write(ardopData(sc.Serial, "IDF", []byte("ID:N0OTHER [JO39EQ]:")))
						}
						sim.sendARQ(c13Payload(k, n))
					}
					vs.WaitQuiescent()
					if sc.Flood > 0 && !sc.Serial {
						// TCP mode has two sockets and the host protocol defines no order between them: a
						// DISCONNECTED that overtakes a backlog on the data socket cannot be told from stray
						// frames after a disconnect. The link ends when the backlog has been taken.
						total := 6 * sc.Flood
						for _, n := range sc.Frames {
							total += n
						}
						vs.WaitUntil("the application has read the backlog", func() bool { return len(o.read) >= total })
					}
					sim.say("DISCONNECTED")
					sim.say("NEWSTATE DISC")
					vs.WaitQuiescent()
					arqDone = true
				})
				if sc.LateRead {
					vs.WaitUntil("tnc has delivered everything and disconnected", func() bool { return arqDone })
				}
				if sc.Flood > 0 {
					vtime.Sleep(10 * time.Second) // the application is busy for a while: the flood piles up in the library
				}
				size := sc.ReadBuf
				if size == 0 {
					size = 65536
				}
				buf := make([]byte, size)
				for {
					n, err := conn.Read(buf)
					if os.Getenv("VERIF_DEBUG_READS") != "" {
						fmt.Printf("read #%d: %d bytes %q err=%v\n", len(o.read), n, buf[:n], err)
					}
					o.read = append(o.read, buf[:n]...)
					if err != nil {
						o.readErr = err
						break
					}
				}
				if sc.Second && ln != nil { // the listener stays open: the next caller gets a session of its own
					o.stage = "close-first"
					conn.Close()
					o.stage = "second-accept"
					vs.GoNamed("tnc-second-call", false, func() {
						vs.WaitQuiescent()
						sim.say("TARGET N0MYC")
						sim.say("NEWSTATE IRS")
						sim.say("CONNECTED N0OTHER 500")
						sim.connected = true
						for k, n := range sc.Frames {
							vs.WaitQuiescent()
							sim.sendARQ(c13Payload(k+10, n))
						}
						vs.WaitQuiescent()
						sim.say("DISCONNECTED")
						sim.say("NEWSTATE DISC")
					})
					conn2, err := ln.Accept()
					o.acceptErr2 = err
					if err != nil {
						return
					}
					o.stage = "second-read"
					for {
						n, err := conn2.Read(buf)
						o.read2 = append(o.read2, buf[:n]...)
						if err != nil {
							o.readErr2 = err
							break
						}
					}
				}
			case "outbound", "ptt":
				o.stage = "write"
				vs.Mark("connected")
				for k, n := range sc.Writes {
					p := c13Payload(k, n)
					m, err := conn.Write(p)
					if m > 0 && m <= len(p) {
						o.wrote = append(o.wrote, p[:m]...)
					}
					if m != len(p) {
						o.shortN = append(o.shortN, m)
					}
					if err != nil {
						o.writeErr = err
						break
					}
				}
				if o.writeErr == nil {
					o.stage = "flush"
					o.flushErr = conn.(interface{ Flush() error }).Flush()
					o.stage = "close"
					o.closeErr = conn.Close()
				}
			case "malformed":
				o.stage = "read"
				vs.GoNamed("tnc-garbage", false, func() {
					vs.WaitQuiescent()
					c := sim.ctrl
					if !sc.Serial && sc.Mal >= 2 && sc.Mal <= 8 || !sc.Serial && (sc.Mal == 10 || sc.Mal >= 12) {
						c = sim.data
					}
					c.Write(c14Malformed(sc.Serial, sc.Mal))
					vs.WaitQuiescent()
					sim.ctrl.Close()
					if sim.data != nil {
						sim.data.Close()
					}
				})
				buf := make([]byte, 65536)
				for {
					n, err := conn.Read(buf)
					o.read = append(o.read, buf[:n]...)
					if err != nil {
						o.readErr = err
						break
					}
				}
			}
			o.stage = "done"
		})
		vs.WaitUntil("application done", func() bool { return o.appDone })
	}
}

type c14Finding struct{ Class, Detail string }

func c14Judge(sc c14Scn, o *c14Obs, res *vs.Result) (out []c14Finding) {
	add := func(c, format string, a ...any) { out = append(out, c14Finding{c, fmt.Sprintf(format, a...)}) }
	if res.Outcome == "panic" {
		add("panic|"+res.Panic.Site, "%s (thread %s)", core.Trunc(res.Panic.Value, 200), res.Panic.Thread)
		return
	}
	for _, f := range closeSendRaces(res) {
		add(f[0], "%s", f[1])
	}
	sim := o.sim
	for _, c := range sim.complaints {
		add("host-frame-malformed", "%s", c)
	}
	if sc.Kind == "malformed" || sc.Kind == "malformed-listen" {
		return
	}
	if res.Outcome != "done" {
		add("application-call-never-returns|"+o.stage, "%s: %+v", res.Outcome, res.Blocked)
		return
	}
	if sc.DieAfter > 0 {
		return // a TNC that goes away: every call returns (with an error), nothing crashes
	}
	if o.openErr != nil {
		add("open-fails", "%v", o.openErr)
		return
	}
	switch sc.Kind {
	case "dial":
		switch sc.Dial {
		case "fault", "disc":
			if o.dialErr == nil {
				add("dial-succeeds-without-connection", sc.Dial)
			}
		default:
			if o.dialErr != nil {
				add("dial-fails", "%v", o.dialErr)
			}
		}
	case "inbound", "listen":
		if o.dialErr != nil || o.acceptErr != nil {
			add("setup-fails", "dial: %v accept: %v", o.dialErr, o.acceptErr)
			return
		}
		var want []byte
		for k := 0; k < sc.Flood; k++ {
			want = append(want, c13Payload(k%97, 6)...)
		}
		for k, n := range sc.Frames {
			want = append(want, c13Payload(k, n)...)
		}
		if !bytes.Equal(o.read, want) {
			d := 0
			for d < len(o.read) && d < len(want) && o.read[d] == want[d] {
				d++
			}
			add("inbound-stream-mismatch", "Read returned %d bytes, the ARQ frames carry %d (first difference at %d; read error %v)", len(o.read), len(want), d, o.readErr)
		} else if o.readErr != io.EOF {
			add("inbound-no-eof", "%v", o.readErr)
		}
		if sc.Second && len(out) == 0 {
			var want2 []byte
			for k, n := range sc.Frames {
				want2 = append(want2, c13Payload(k+10, n)...)
			}
			switch {
			case o.acceptErr2 != nil:
				add("second-accept-fails", "%v", o.acceptErr2)
			case !bytes.Equal(o.read2, want2):
				add("inbound-stream-mismatch|second-session", "the second session on the listener: Read returned %d bytes, its ARQ frames carry %d (read error %v)", len(o.read2), len(want2), o.readErr2)
			case o.readErr2 != io.EOF:
				add("inbound-no-eof|second-session", "%v", o.readErr2)
			}
		}
	case "outbound", "ptt":
		if o.dialErr != nil {
			add("setup-fails", "dial: %v", o.dialErr)
			return
		}
		if sc.CRCFault >= 3 {
			if o.writeErr == nil {
				add("write-succeeds-after-three-crcfaults", "")
			}
			return
		}
		if o.writeErr != nil || o.flushErr != nil {
			add("outbound-error", "write: %v flush: %v", o.writeErr, o.flushErr)
			return
		}
		if !bytes.Equal(sim.dataGot, o.wrote) {
			add("outbound-stream-mismatch", "TNC accepted %d payload bytes, Write reported %d accepted", len(sim.dataGot), len(o.wrote))
		}
		for _, m := range o.shortN {
			if m < 0 {
				add("write-count-negative", "%d", m)
			}
		}
		if !sim.disconnect {
			add("close-without-disconnect", "Close: %v", o.closeErr)
		}
		if sc.CloseAns != 2 && o.closeErr != nil {
			add("close-error", "%v", o.closeErr)
		}
		if sc.BufOrder == 0 {
			want := []bool{}
			for range sc.Writes {
				want = append(want, true, false)
			}
			if fmt.Sprint(o.ptt.calls) != fmt.Sprint(want) {
				add("ptt-order", "PTT controller saw %v, the TNC requested %v", o.ptt.calls, want)
			}
		}
	}
	return
}

func c14Scenarios(thorough bool) []c14Scn {
	var out []c14Scn
	for _, serial := range []bool{true, false} {
		for _, off := range []bool{false, true} {
			for _, seg := range []int{0, 1, 2} {
				out = append(out, c14Scn{Kind: "open", Serial: serial, Offline: off, Seg: seg})
			}
		}
		for _, d := range []string{"connected", "fault", "disc"} {
			out = append(out, c14Scn{Kind: "dial", Serial: serial, Dial: d})
		}
		for _, fs := range [][]int{{1}, {2, 1000}, {5, 5, 5}, {65532}} {
			for _, rb := range []int{0, 1, 1000} {
				for _, seg := range []int{0, 1, 2} {
					if !thorough && (seg == 1 && len(fs) > 1 && fs[1] == 1000 || fs[0] == 65532 && (seg != 0 || rb == 1)) {
						continue
					}
					out = append(out, c14Scn{Kind: "inbound", Serial: serial, Frames: fs, ReadBuf: rb, Seg: seg})
				}
			}
		}
		// every single cut offset of the TNC->host stream while one ARQ frame arrives
		for cut := 1; cut < 420; cut += 1 {
			out = append(out, c14Scn{Kind: "inbound", Serial: serial, Frames: []int{9}, Seg: 3 + cut})
		}
		for _, ws := range [][]int{{1}, {10, 20}, {65535}, {65536}, {70000}} {
			for bo := 0; bo < 3; bo++ {
				for ca := 0; ca < 3; ca++ {
					if !thorough && (ws[0] > 60000 && (bo != 0 || ca != 0) || ca == 2 && bo != 0) {
						continue
					}
					out = append(out, c14Scn{Kind: "outbound", Serial: serial, Writes: ws, BufOrder: bo, CloseAns: ca})
				}
			}
		}
		// one small write explored to deviation bound 2 in every tier (the Write / control-loop hand-over
		// of BUFFER updates needs two deviations to be reordered)
		for _, bo := range []int{0, 2} {
			out = append(out, c14Scn{Kind: "outbound", Serial: serial, Writes: []int{1}, BufOrder: bo, CloseAns: 1, Deep: true})
		}
		if serial {
			for cf := 1; cf <= 3; cf++ {
				out = append(out, c14Scn{Kind: "outbound", Serial: true, Writes: []int{10, 3}, CRCFault: cf})
			}
		}
		out = append(out, c14Scn{Kind: "listen", Serial: serial, Frames: []int{3, 4}})
		out = append(out, c14Scn{Kind: "listen", Serial: serial, Frames: []int{3, 4}, Second: true})
		for k := 1; k <= 10; k++ { // the TNC is lost while the application opens it and dials
			out = append(out, c14Scn{Kind: "dial", Serial: serial, Dial: "connected", DieAfter: k})
		}
		out = append(out, c14Scn{Kind: "inbound", Serial: serial, Flood: 4200, Frames: []int{3}}) // the library queues 4096 frames
		out = append(out, c14Scn{Kind: "inbound", Serial: serial, Frames: []int{5, 4, 6}, Mixed: true}, c14Scn{Kind: "inbound", Serial: serial, Frames: []int{5, 4}, ReadBuf: 2, Mixed: true})
		if serial {
			for _, rb := range []int{0, 2} {
				out = append(out, c14Scn{Kind: "inbound", Serial: true, Frames: []int{5, 4}, ReadBuf: rb, Early: true}, c14Scn{Kind: "listen", Serial: true, Frames: []int{5, 4}, ReadBuf: rb, Early: true})
			}
		}
		for _, fs := range [][]int{{6}, {5, 5, 5}, {20, 1, 300, 2, 9, 9, 9, 9}} {
			for _, rb := range []int{0, 7} {
				out = append(out, c14Scn{Kind: "inbound", Serial: serial, Frames: fs, ReadBuf: rb, LateRead: true})
			}
		}
		for m := 0; m < 6; m++ {
			out = append(out, c14Scn{Kind: "malformed-listen", Serial: serial, Mal: m})
		}
		for m := 0; m <= 12; m++ {
			out = append(out, c14Scn{Kind: "malformed", Serial: serial, Mal: m}, c14Scn{Kind: "malformed", Serial: serial, Mal: m, Seg: 1})
		}
	}
	return out
}

func C14(args []string) {
	r := core.Begin("C14", "model_checking", args)
	var o c14Obs
	cfg := vs.Config{Horizon: 10 * time.Minute, MaxSteps: 400000, NoTimerFirst: true}
	if p := replayPath(args); p != "" {
		var f struct {
			Case c14Scn `json:"case"`
		}
		readJSONFile(p, &f)
		c := cfg
		c.Choices = f.Case.Choices
		res := vs.Run(c, c14Harness(f.Case, &o))
		fmt.Printf("%s choices %v: outcome %s stage %s\ncommands: %q\n", f.Case.describe(), f.Case.Choices, res.Outcome, o.stage, o.sim.cmds)
		for _, fd := range c14Judge(f.Case, &o, &res) {
			fmt.Printf("class=%q %s\n", fd.Class, fd.Detail)
		}
		return
	}
	scns := c14Scenarios(r.Thorough())
	deepBound := 0
	if v := os.Getenv("VERIF_DEEP_BOUND"); v != "" { // development aid: only the deep scenarios, to the given bound
		fmt.Sscan(v, &deepBound)
		var only []c14Scn
		for _, sc := range scns {
			if sc.Deep {
				only = append(only, sc)
			}
		}
		scns = only
	}
	maxBound := 1
	if r.Thorough() {
		maxBound = 2
	}
	devBound := 0
	if v := os.Getenv("VERIF_ONLY"); v != "" { // development aid: only the scenarios whose description contains the text, to VERIF_BOUND
		var only []c14Scn
		for _, sc := range scns {
			if strings.Contains(sc.describe(), v) {
				only = append(only, sc)
			}
		}
		scns = only
		fmt.Sscan(os.Getenv("VERIF_BOUND"), &devBound)
	}
	r.Sharded(len(scns), func(i int) {
		sc := scns[i]
		e := &vs.Explorer{Harness: c14Harness(sc, &o), Mode: vs.DelayBounded, Cfg: cfg, MaxExec: 800}
		if r.Thorough() {
			e.MaxExec = 40000
		}
		maxBound := maxBound
		if devBound > 0 {
			maxBound, e.MaxExec = devBound, 3000000
		}
		big := false
		for _, n := range append(append([]int{}, sc.Frames...), sc.Writes...) {
			if n > 10000 {
				big = true
			}
		}
		if sc.Seg > 3 || big || sc.Flood > 0 || sc.Kind == "malformed" && sc.Mal >= 7 {
			maxBound = 0
		}
		if sc.Deep {
			// set-up (open, initialise, dial) on the default schedule, every schedule with up to
			// two (thorough three) deviations from the first Write on
			e.FromMark, e.MaxExec = "connected", 60000
			maxBound++
			if deepBound > 0 {
				maxBound, e.MaxExec = deepBound, 3000000
			}
		}
		e.Check = func(choices []int, res *vs.Result) {
			r.Evals.Add(1)
			r.Heartbeat()
			for _, fd := range c14Judge(sc, &o, res) {
				v := sc
				v.Choices = append([]int{}, choices...)
				r.Violation("C14|"+fd.Class, sc.describe()+": "+fd.Detail, v)
			}
			r.Key(res.Outcome + "/" + o.stage)
		}
		completed := e.RunIterative(maxBound)
		if e.Capped {
			r.Cap("scenario %s: exploration capped inside deviation bound %d after %d schedules (bound %d completed)", sc.describe(), e.Bound, e.Execs, completed)
		}
		r.Nontrivial.Add(int64(e.Interleaved))
		r.Add("schedules", int64(e.Execs))
		r.Add("visible_steps", e.Steps)
		r.Add("states", int64(len(e.States)))
		r.Add("replayed_identically", int64(e.Replayed))
		if i%60 == 0 {
			r.Sample(map[string]any{"scenario": sc.describe(), "schedules": e.Execs, "bound_completed": completed, "max_choice_points": e.MaxPoints})
		}
	}, core.ShardOpts{Watchdog: 600 * time.Second})
	add := r.Added()
	r.Finish(core.Coverage{
		"states":                        add["states"],
		"transitions":                   add["visible_steps"],
		"traces_validated_against_impl": add["replayed_identically"],
		"distinct_nontrivial":           r.Nontrivial.Load(),
		"rule":                          "one evaluation = one schedule of the rewritten ardop package (stream decoders, control loop, writer, broadcaster, beacon and application threads) against the reference ARDOP TNC simulator, serial (CRC) or TCP host interface; non-trivial = schedules in which at least two threads were enabled at once",
		"scenarios":                     len(scns), "schedules": add["schedules"], "deviation_bound": maxBound,
	}, []string{
		"delay-bounded exploration, iteratively deviation bound 0..bound; timers fire only when every thread is blocked",
		"the TNC simulator is paced: it sends the next unsolicited frame when the host pipeline has come to rest",
		"unsynchronised struct fields of ardop.TNC (state, connected, data, closed) are outside the race oracle; race freedom is not claimed for C14",
	})
}
