package gprops

import (
	"bytes"
	"fmt"
	"io"
	"net"
	"net/url"
	"strings"
	"time"

	"github.com/la5nta/wl2k-go/transport"
	"github.com/la5nta/wl2k-go/transport/telnet"

	"verif/core"
	"verif/vs"
	"verif/vs/vcontext"
	"verif/vs/vnet"
	"verif/vs/vtime"
)

func init() { Registry["C15"] = C15 }

type c15Scn struct {
	Kind     string `json:"kind"` // stream | deadline
	Call     int    `json:"call"`
	PayloadC int    `json:"client_payload"`
	PayloadS int    `json:"server_payload"`
	Seg      int    `json:"seg"` // stream: segmentation plan index
	IdlePast bool   `json:"idle_past_deadline"`
	Server   int    `json:"server"`               // deadline: scripted server behaviour
	Via      int    `json:"via"`                  // 0 DialContext, 1 DialTimeout, 2 Dialer.DialURL, 3 Dialer.DialURLContext (ctx deadline < dialer timeout), 4 transport.DialURLContext, 5 dial_timeout URL parameter
	Read     int    `json:"read_chunk,omitempty"` // stream: size of the post-login Read calls (0: one buffer for the whole payload)
	Choices  []int  `json:"choices,omitempty"`
}

var c15Calls = []string{"N0CALL", "n0call-10", "A", "", "with space inside", "ünï", strings.Repeat("X", 200), "LA5%NTA", "%s", "N0CALL-50%", "LA\n5NTA", "N0CALL"}
var c15Passwords = []string{"CMSTelnet", "p w", "", "ünï", strings.Repeat("p", 200), "x", "secret", "100%", "%d%v", "%", "sec\nret", "secret\n"}

func c15Payload(i int) []byte {
	switch i {
	case 0:
		return nil
	case 1:
		return []byte("Z")
	case 2:
		return []byte("[WL2K-5.0-B2FWIHJM$]\r;FW: N0CALL\r; N0X DE N0Y (AA00aa)>\r")
	case 4: // starts with a line feed
		return []byte("\n[WL2K-5.0-B2FWIHJM$]\r")
	case 5:
		return []byte("\r\n\r\n \t\x00payload after blank lines")
	default:
		b := make([]byte, 256)
		for k := range b {
			b[k] = byte(k)
		}
		return b
	}
}

// segmentation plans for both directions
func c15Seg(i int, total int) (vnet.Seg, string) {
	switch {
	case i == 0:
		return vnet.Seg{}, "coalesced"
	case i == 1:
		return vnet.Seg{Every: 1}, "every-byte"
	case i == 2:
		return vnet.Seg{Every: 2}, "every-2"
	case i == 3:
		return vnet.Seg{Every: 7}, "every-7"
	default:
		return vnet.Seg{Cuts: []int{i - 3}}, fmt.Sprintf("cut@%d", i-3)
	}
}

type c15Obs struct {
	remoteCall   string
	serverGot    []byte
	clientGot    []byte
	dialErr      error
	acceptErr    error
	dialReturned time.Duration
	returned     bool
	serverDone   bool
	clientDone   bool
	postErr      string
}

const c15Addr = "telnet-server:8772"

func c15Stream(sc c15Scn, o *c15Obs) func() {
	return func() {
		*o = c15Obs{}
		call, pw := c15Calls[sc.Call], c15Passwords[sc.Call]
		pc, ps := c15Payload(sc.PayloadC), c15Payload(sc.PayloadS)
		seg, _ := c15Seg(sc.Seg, 0)
		ln, err := telnet.Listen(c15Addr)
		if err != nil {
			panic(err)
		}
		// the server side reads with the segmentation plan: applied when the raw conn is created
		vnet.OnPipe = func(cl, sv *vnet.TCPConn) {
			sv.SetReadSeg(seg)
			cl.SetReadSeg(seg)
		}
		vs.GoNamed("server", true, func() {
			conn, err := ln.Accept()
			o.acceptErr = err
			if err != nil {
				return
			}
			if rc, ok := conn.(interface{ RemoteCall() string }); ok {
				o.remoteCall = rc.RemoteCall()
			}
			if len(ps) > 0 { // (with nothing to send the client may have hung up already)
				if _, err := conn.Write(ps); err != nil {
					o.postErr = "server write: " + err.Error()
				}
			}
			buf := make([]byte, len(pc))
			n, err := c15ReadFull(conn, buf, sc.Read)
			o.serverGot = buf[:n]
			if err != nil && len(pc) > 0 {
				o.postErr = "server read: " + err.Error()
			}
			// done: hang up at once - what was sent before must still arrive (the client may not have read it yet)
			conn.Close()
			o.serverDone = true
		})
		vs.GoNamed("client", true, func() {
			var conn net.Conn
			var err error
			switch sc.Via {
			case 1:
				conn, err = telnet.DialTimeout(c15Addr, call, pw, 400*time.Millisecond)
			default:
				ctx, cancel := vcontext.WithTimeout(vcontext.Background(), 400*time.Millisecond)
				defer cancel()
				conn, err = telnet.DialContext(ctx, c15Addr, call, pw)
			}
			o.dialErr = err
			o.dialReturned, o.returned = vs.Elapsed(), true
			if err != nil {
				return
			}
			if sc.IdlePast {
				vtime.Sleep(time.Second) // the session outlasts the dial deadline
			}
			if len(pc) > 0 { // (with nothing to send the server may have hung up already)
				if _, err := conn.Write(pc); err != nil {
					o.postErr = "client write: " + err.Error()
				}
			}
			buf := make([]byte, len(ps))
			n, err := c15ReadFull(conn, buf, sc.Read)
			o.clientGot = buf[:n]
			if err != nil && len(ps) > 0 {
				o.postErr = "client read: " + err.Error()
			}
			conn.Close()
			o.clientDone = true
		})
		vs.WaitUntil("both sides done", func() bool { return o.serverDone && o.clientDone })
	}
}

// c15ReadFull fills buf with Read calls of at most chunk bytes (0: io.ReadFull with the whole buffer).
func c15ReadFull(conn net.Conn, buf []byte, chunk int) (int, error) {
	if chunk <= 0 {
		return io.ReadFull(conn, buf)
	}
	got := 0
	for got < len(buf) {
		end := got + chunk
		if end > len(buf) {
			end = len(buf)
		}
		n, err := conn.Read(buf[got:end])
		got += n
		if err != nil {
			return got, err
		}
	}
	return got, nil
}

// c15Scripted: a server that does not wait for the replies - both prompts and its payload leave in one
// write, so the payload is coalesced with the last login line in the dialler's login reader.
func c15Scripted(sc c15Scn, o *c15Obs) func() {
	return func() {
		*o = c15Obs{}
		ps := c15Payload(sc.PayloadS)
		seg, _ := c15Seg(sc.Seg, 0)
		var serverConn *vnet.TCPConn
		vnet.DialHook[c15Addr] = func(cl, sv *vnet.TCPConn) error {
			cl.SetReadSeg(seg)
			serverConn = sv
			return nil
		}
		vs.GoNamed("scripted-server", false, func() {
			vs.WaitUntil("connection", func() bool { return serverConn != nil })
			serverConn.Write(append([]byte("Callsign :\rPassword :\r"), ps...))
			vs.WaitUntil("forever", func() bool { return false })
		})
		vs.GoNamed("client", true, func() {
			conn, err := telnet.DialTimeout(c15Addr, "N0CALL", "pw", 400*time.Millisecond)
			o.dialErr = err
			o.returned = true
			if err != nil {
				o.clientDone = true
				return
			}
			buf := make([]byte, len(ps))
			conn.SetReadDeadline(vtime.Now().Add(5 * time.Second))
			n, err := c15ReadFull(conn, buf, sc.Read)
			o.clientGot = buf[:n]
			if err != nil && len(ps) > 0 {
				o.postErr = "client read: " + err.Error()
			}
			o.clientDone = true
		})
		vs.WaitUntil("client done", func() bool { return o.clientDone })
	}
}

// c15Two: two sessions overlap on one listener. The first accepted connection is read only after the
// second login has completed: whatever the listener keeps per login must not be shared between them.
func c15Two(sc c15Scn, o *c15Obs) func() {
	return func() {
		*o = c15Obs{}
		seg, _ := c15Seg(sc.Seg, 0)
		ln, err := telnet.Listen(c15Addr)
		if err != nil {
			panic(err)
		}
		vnet.OnPipe = func(cl, sv *vnet.TCPConn) {
			sv.SetReadSeg(seg)
			cl.SetReadSeg(seg)
		}
		calls := [2]string{"N0AAA", "N0BBB-7"}
		pay := func(i int, dir string) []byte {
			return append([]byte(fmt.Sprintf("[%s %s] ", calls[i], dir)), c15Payload(sc.PayloadC)...)
		}
		accepted := 0
		var got [2][]byte
		var rcalls [2]string
		clientsDone := 0
		vs.GoNamed("server", true, func() {
			var conns [2]net.Conn
			for i := 0; i < 2; i++ {
				c, err := ln.Accept()
				if err != nil {
					o.acceptErr = err
					return
				}
				conns[i] = c
				if rc, ok := c.(interface{ RemoteCall() string }); ok {
					rcalls[i] = rc.RemoteCall()
				}
				accepted++
			}
			for i := 0; i < 2; i++ {
				buf := make([]byte, len(pay(i, "up")))
				n, err := c15ReadFull(conns[i], buf, sc.Read)
				got[i] = buf[:n]
				if err != nil {
					o.postErr = fmt.Sprintf("server read on connection %d: %v", i, err)
				}
				if _, err := conns[i].Write(pay(i, "down")); err != nil {
					o.postErr = "server write: " + err.Error()
				}
			}
			o.serverDone = true
		})
		for i := 0; i < 2; i++ {
			i := i
			vs.GoNamed(fmt.Sprintf("client-%d", i), true, func() {
				// the second client dials when the first login is complete (accept order = client order)
				vs.WaitUntil("earlier login complete", func() bool { return accepted >= i })
				conn, err := telnet.DialTimeout(c15Addr, calls[i], "pw", 400*time.Millisecond)
				if err != nil {
					o.dialErr = err
					clientsDone++
					return
				}
				if _, err := conn.Write(pay(i, "up")); err != nil {
					o.postErr = "client write: " + err.Error()
				}
				buf := make([]byte, len(pay(i, "down")))
				n, err := c15ReadFull(conn, buf, sc.Read)
				if err != nil || !bytes.Equal(buf[:n], pay(i, "down")) {
					o.postErr = fmt.Sprintf("client %d read %q (%v), the server sent %q", i, core.Trunc(string(buf[:n]), 40), err, core.Trunc(string(pay(i, "down")), 40))
				}
				clientsDone++
			})
		}
		o.returned = true
		vs.WaitUntil("all done", func() bool { return o.serverDone && clientsDone == 2 || o.acceptErr != nil && clientsDone == 2 })
		for i := 0; i < 2; i++ {
			if o.postErr == "" && o.serverDone && !bytes.Equal(got[i], pay(i, "up")) {
				o.postErr = fmt.Sprintf("accepted connection %d (%s) read %q, its client sent %q", i, rcalls[i], core.Trunc(string(got[i]), 40), core.Trunc(string(pay(i, "up")), 40))
			}
			if o.postErr == "" && o.serverDone && rcalls[i] != calls[i] {
				o.postErr = fmt.Sprintf("accepted connection %d reports %q, dialled as %q", i, rcalls[i], calls[i])
			}
		}
	}
}

var c15Servers = []string{"never-accepts", "silent", "partial-prompt", "garbage-no-cr", "callsign-then-silence", "closes-at-once", "dribbles", "callsign-password-then-silence", "wrong-prompts", "garbage-lines-every-0.6T", "slow-prompts-0.8T"}

func c15Deadline(sc c15Scn, o *c15Obs) func() {
	const T = 300 * time.Millisecond
	return func() {
		*o = c15Obs{}
		behaviour := c15Servers[sc.Server]
		var serverConn *vnet.TCPConn
		vnet.DialHook[c15Addr] = func(cl, sv *vnet.TCPConn) error {
			if behaviour == "never-accepts" {
				return vnet.ErrNeverConnects
			}
			serverConn = sv
			return nil
		}
		vs.GoNamed("scripted-server", false, func() {
			vs.WaitUntil("connection", func() bool { return serverConn != nil })
			c := serverConn
			switch behaviour {
			case "silent":
			case "partial-prompt":
				c.Write([]byte("Calls"))
			case "garbage-no-cr":
				c.Write(bytes.Repeat([]byte("garbage "), 20))
			case "callsign-then-silence":
				c.Write([]byte("Callsign :\r"))
			case "callsign-password-then-silence":
				c.Write([]byte("Callsign :\rPassword :\r"))
			case "closes-at-once":
				c.Close()
			case "dribbles":
				for _, b := range []byte("Callsign :\rPassword :\r") {
					c.Write([]byte{b})
					vtime.Sleep(T / 2)
				}
			case "wrong-prompts":
				c.Write([]byte("Welcome\rLogin please\r"))
			case "garbage-lines-every-0.6T": // complete lines, each well inside the timeout, together far beyond it
				for k := 0; k < 8; k++ {
					vtime.Sleep(T * 6 / 10)
					c.Write([]byte("please wait...\r"))
				}
			case "slow-prompts-0.8T": // genuine prompts, the second one 1.6 T after the connect
				vtime.Sleep(T * 8 / 10)
				c.Write([]byte("Callsign :\r"))
				vtime.Sleep(T * 8 / 10)
				c.Write([]byte("Password :\r"))
			}
			vs.WaitUntil("forever", func() bool { return false })
		})
		vs.GoNamed("client", true, func() {
			var err error
			switch sc.Via {
			case 1:
				_, err = telnet.DialTimeout(c15Addr, "N0CALL", "pw", T)
			case 2:
				_, err = telnet.Dialer{Timeout: T}.DialURL(c15URL())
			case 3:
				ctx, cancel := vcontext.WithTimeout(vcontext.Background(), T)
				defer cancel()
				_, err = telnet.Dialer{Timeout: 10 * T}.DialURLContext(ctx, c15URL())
			case 4:
				ctx, cancel := vcontext.WithTimeout(vcontext.Background(), T)
				defer cancel()
				transport.RegisterDialer("telnet", telnet.DefaultDialer) // as the package's init does
				_, err = transport.DialURLContext(ctx, c15URL())
			case 5:
				u := c15URL()
				u.Params.Set("dial_timeout", T.String())
				_, err = telnet.Dialer{Timeout: 10 * T}.DialURL(u)
			default:
				ctx, cancel := vcontext.WithTimeout(vcontext.Background(), T)
				defer cancel()
				_, err = telnet.DialContext(ctx, c15Addr, "N0CALL", "pw")
			}
			o.dialErr = err
			o.dialReturned, o.returned = vs.Elapsed(), true
		})
		vs.WaitUntil("dial returned", func() bool { return o.returned })
	}
}

func (sc c15Scn) describe() string {
	if sc.Kind == "scripted-stream" {
		_, seg := c15Seg(sc.Seg, 0)
		return fmt.Sprintf("scripted server sending both prompts and payload %d in one write, seg=%s readChunk=%d", sc.PayloadS, seg, sc.Read)
	}
	if sc.Kind == "two-sessions" {
		_, seg := c15Seg(sc.Seg, 0)
		return fmt.Sprintf("two overlapping sessions on one listener, payload %d seg=%s readChunk=%d", sc.PayloadC, seg, sc.Read)
	}
	if sc.Kind == "stream" {
		_, seg := c15Seg(sc.Seg, 0)
		return fmt.Sprintf("stream call=%q payloads c=%d s=%d seg=%s via=%d idlePastDeadline=%v readChunk=%d", core.Trunc(c15Calls[sc.Call], 20), sc.PayloadC, sc.PayloadS, seg, sc.Via, sc.IdlePast, sc.Read)
	}
	return fmt.Sprintf("deadline server=%s via=%d", c15Servers[sc.Server], sc.Via)
}

// c15Judge evaluates one execution.
func c15Judge(sc c15Scn, o *c15Obs, res *vs.Result) (string, string) {
	if res.Outcome == "panic" {
		return "panic|" + res.Panic.Site, res.Panic.Value
	}
	if fs := closeSendRaces(res); len(fs) > 0 {
		return fs[0][0], fs[0][1]
	}
	if sc.Kind == "deadline" {
		const T = 300 * time.Millisecond
		if !o.returned {
			return "dial-blocks-past-deadline|" + c15Servers[sc.Server], fmt.Sprintf("the dial is still blocked when nothing can happen any more (virtual time %v, deadline %v): %+v", res.Now, T, res.Blocked)
		}
		// lateness is judged where virtual time only advanced with every thread blocked; a schedule that
		// lets timers land while the dialling thread is runnable delays that thread by an arbitrary amount
		// (no deadline survives that) - such schedules are judged for "never returns" and panics only
		if o.dialReturned > T && !res.TimerFirstTaken() {
			return "dial-returns-late|" + c15Servers[sc.Server], fmt.Sprintf("returned at %v, deadline %v", o.dialReturned, T)
		}
		return "", ""
	}
	if sc.Kind == "scripted-stream" {
		ps := c15Payload(sc.PayloadS)
		switch {
		case o.dialErr != nil:
			return "login-fails|scripted-server", fmt.Sprint(o.dialErr)
		case res.Outcome != "done":
			return "payload-lost|client-side", fmt.Sprintf("%s: %+v", res.Outcome, res.Blocked)
		case !bytes.Equal(o.clientGot, ps):
			return "payload-altered|client-side", fmt.Sprintf("client read %q (%s), the server sent %q right behind the password prompt", core.Trunc(string(o.clientGot), 60), o.postErr, core.Trunc(string(ps), 60))
		}
		return "", ""
	}
	if sc.Kind == "two-sessions" {
		switch {
		case o.dialErr != nil || o.acceptErr != nil:
			return "login-fails|two-sessions", fmt.Sprintf("dial: %v accept: %v", o.dialErr, o.acceptErr)
		case res.Outcome != "done":
			return "payload-lost|two-sessions", fmt.Sprintf("%s: %+v", res.Outcome, res.Blocked)
		case o.postErr != "":
			return "payload-altered|two-sessions", o.postErr
		}
		return "", ""
	}
	call := c15Calls[sc.Call]
	pc, ps := c15Payload(sc.PayloadC), c15Payload(sc.PayloadS)
	if o.dialErr != nil || o.acceptErr != nil {
		return "login-fails", fmt.Sprintf("dial: %v accept: %v", o.dialErr, o.acceptErr)
	}
	if res.Outcome != "done" {
		side := "server"
		got, want := o.serverGot, pc
		if o.serverDone {
			side, got, want = "client", o.clientGot, ps
		}
		if !o.returned {
			return "login-hangs", fmt.Sprintf("%s: %+v", res.Outcome, res.Blocked)
		}
		return "payload-lost|" + side + "-side", fmt.Sprintf("%s: the %s is still waiting for payload bytes that never arrive (it would have %d of %d); blocked: %+v", res.Outcome, side, len(got), len(want), res.Blocked)
	}
	if o.postErr != "" {
		return "post-login-io-error", o.postErr
	}
	if o.remoteCall != strings.TrimSpace(call) {
		return "remote-call", fmt.Sprintf("accepted connection reports %q, dialled as %q", o.remoteCall, call)
	}
	if !bytes.Equal(o.serverGot, pc) {
		return "payload-altered|server-side", fmt.Sprintf("server read %q, client sent %q", core.Trunc(string(o.serverGot), 60), core.Trunc(string(pc), 60))
	}
	if !bytes.Equal(o.clientGot, ps) {
		return "payload-altered|client-side", fmt.Sprintf("client read %q, server sent %q", core.Trunc(string(o.clientGot), 60), core.Trunc(string(ps), 60))
	}
	return "", ""
}

func C15(args []string) {
	r := core.Begin("C15", "model_checking", args)
	var o c15Obs
	harness := func(sc c15Scn) func() {
		if sc.Kind == "stream" {
			return c15Stream(sc, &o)
		}
		if sc.Kind == "two-sessions" {
			return c15Two(sc, &o)
		}
		if sc.Kind == "scripted-stream" {
			return c15Scripted(sc, &o)
		}
		return c15Deadline(sc, &o)
	}
	if p := replayPath(args); p != "" {
		var f struct {
			Case c15Scn `json:"case"`
		}
		readJSONFile(p, &f)
		res := vs.Run(vs.Config{Choices: f.Case.Choices, Horizon: time.Minute}, harness(f.Case))
		c, d := c15Judge(f.Case, &o, &res)
		fmt.Printf("%s choices %v: outcome %s class=%q %s\n", f.Case.describe(), f.Case.Choices, res.Outcome, c, d)
		return
	}
	var scns []c15Scn
	// stream scenarios: every call x payload pairs with the basic plans; every single cut offset for one call
	for ci := range c15Calls {
		for pc := 0; pc < 4; pc++ {
			for ps := 0; ps < 4; ps++ {
				for seg := 0; seg < 4; seg++ {
					if !r.Thorough() && ci > 1 && (pc != 2 || ps != 2) && seg > 1 {
						continue
					}
					scns = append(scns, c15Scn{Kind: "stream", Call: ci, PayloadC: pc, PayloadS: ps, Seg: seg, Via: ci % 2})
				}
			}
		}
	}
	// payloads that begin with line terminators / white space, coalesced with the last login line or not
	for _, pl := range [][2]int{{4, 4}, {5, 5}, {4, 2}, {2, 5}} {
		for _, seg := range []int{0, 1, 3} {
			for _, ci := range []int{0, 1} {
				scns = append(scns, c15Scn{Kind: "stream", Call: ci, PayloadC: pl[0], PayloadS: pl[1], Seg: seg, Via: ci % 2})
			}
		}
	}
	for cut := 1; cut <= 40; cut++ {
		scns = append(scns, c15Scn{Kind: "stream", Call: 0, PayloadC: 2, PayloadS: 2, Seg: 3 + cut}, c15Scn{Kind: "stream", Call: 1, PayloadC: 1, PayloadS: 3, Seg: 3 + cut, Via: 1})
	}
	for via := 0; via < 2; via++ {
		for seg := 0; seg < 2; seg++ {
			scns = append(scns, c15Scn{Kind: "stream", Call: 0, PayloadC: 2, PayloadS: 2, Seg: seg, Via: via, IdlePast: true})
		}
	}
	// post-login reads smaller than what the login reader may still hold
	for _, chunk := range []int{1, 3, 8} {
		for _, seg := range []int{0, 3} {
			for ci := 0; ci < 2; ci++ {
				for _, pl := range [][2]int{{2, 2}, {3, 3}, {1, 3}} {
					scns = append(scns, c15Scn{Kind: "stream", Call: ci, PayloadC: pl[0], PayloadS: pl[1], Seg: seg, Via: ci % 2, Read: chunk})
				}
			}
		}
	}
	for ps := 1; ps <= 5; ps++ {
		for _, seg := range []int{0, 1, 2, 3} {
			for _, chunk := range []int{0, 1, 3} {
				scns = append(scns, c15Scn{Kind: "scripted-stream", PayloadS: ps, Seg: seg, Read: chunk})
			}
		}
	}
	for _, seg := range []int{0, 1, 3} {
		for _, pl := range []int{1, 2} {
			for _, chunk := range []int{0, 3} {
				scns = append(scns, c15Scn{Kind: "two-sessions", PayloadC: pl, Seg: seg, Read: chunk})
			}
		}
	}
	for sv := range c15Servers {
		for via := 0; via < 6; via++ {
			scns = append(scns, c15Scn{Kind: "deadline", Server: sv, Via: via})
		}
	}
	maxBound := 2
	if r.Thorough() {
		maxBound = 3
	}
	r.Sharded(len(scns), func(i int) {
		sc := scns[i]
		// stream scenarios have no time-dependent behaviour of their own: timers fire only when
		// every thread is blocked (a dial deadline that expires early is legitimate, not a finding)
		e := &vs.Explorer{Harness: harness(sc), Mode: vs.Chess, Cfg: vs.Config{Horizon: time.Minute, MaxSteps: 20000, NoTimerFirst: sc.Kind != "deadline"}, MaxExec: 60000}
		maxBound := maxBound
		if sc.Kind != "deadline" {
			maxBound-- // preemption bound 1 (thorough 2); byte-wise segmentation makes these long
			if sc.Seg == 1 && (sc.PayloadC == 3 || sc.PayloadS == 3) && maxBound > 1 {
				maxBound = 1
			}
		}
		e.Check = func(choices []int, res *vs.Result) {
			r.Evals.Add(1)
			r.Heartbeat()
			if c, d := c15Judge(sc, &o, res); c != "" {
				v := sc
				v.Choices = append([]int{}, choices...)
				r.Violation("C15|"+c, sc.describe()+": "+d, v)
			}
			r.Key(res.Outcome)
		}
		completed := e.RunIterative(maxBound)
		if e.Capped {
			r.Cap("scenario %s: exploration capped inside bound %d (bound %d completed)", sc.describe(), e.Bound, completed)
		}
		r.Nontrivial.Add(int64(e.Interleaved))
		r.Add("schedules", int64(e.Execs))
		r.Add("visible_steps", e.Steps)
		r.Add("states", int64(len(e.States)))
		r.Add("replayed_identically", int64(e.Replayed))
		if i%50 == 0 {
			r.Sample(map[string]any{"scenario": sc.describe(), "schedules": e.Execs, "bound_completed": completed})
		}
	}, core.ShardOpts{Watchdog: 300 * time.Second})
	add := r.Added()
	r.Finish(core.Coverage{
		"states":                        add["states"],
		"transitions":                   add["visible_steps"],
		"traces_validated_against_impl": add["replayed_identically"],
		"distinct_nontrivial":           r.Nontrivial.Load(),
		"rule":                          "one evaluation = one schedule of the rewritten telnet package (client, server and harness threads; virtual time; in-memory network) for one scenario; states = distinct global state hashes summed over scenarios; non-trivial = schedules in which at least two threads were enabled at once",
		"scenarios":                     len(scns), "schedules": add["schedules"], "preemption_bound": maxBound, "replayed_identically": add["replayed_identically"],
	}, []string{
		"CHESS-mode exploration: switches at blocking points are free, preemptions, timer-first and environment deviations are bounded (iteratively 0..bound)",
		"the rewritten package is the working-tree source with sync/time/context/net routed to the scheduler's shims (regenerated at every run)",
	})
}

func c15URL() *transport.URL {
	return &transport.URL{Scheme: "telnet", Host: c15Addr, User: url.UserPassword("N0CALL", "pw"), Target: "WL2K", Params: url.Values{}}
}
