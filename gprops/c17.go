package gprops

import (
	"bufio"
	"fmt"
	"io"
	"net"
	"path/filepath"
	"strings"
	"time"

	"github.com/la5nta/wl2k-go/fbb"

	"verif/core"
	"verif/sess"
	"verif/vs"
	"verif/vs/vnet"
	"verif/vs/vtime"
)

func init() { Registry["C17"] = C17 }

type c17Scn struct {
	MsgsA   int `json:"msgs_a"`  // messages A -> B
	MsgsB   int `json:"msgs_b"`  // messages B -> A
	Size    int `json:"size"`    // 0 small (2 chunks), 1 three chunks, 2 about twenty chunks
	Latency int `json:"latency"` // index into c17Latencies (virtual time per Write)
	TxBuf   int `json:"txbuf"`   // 0 transport without TxBufferLen, 1 reports 0, 2 reports more than remains, 3 reports a draining queue, 4 likewise and Flush blocks for 600 ms
	// Offset > 0: station B is a scripted CMS-style remote that accepts A's (single) proposal at this
	// offset ("FS !n", or "FS An" if OffA) - the resumed-transfer path of the sender
	LongSubject bool  `json:"long_subject,omitempty"` // subjects of 110 characters: longer than the 80-byte title field of the transfer
	Offset      int   `json:"offset,omitempty"`
	OffA        bool  `json:"offset_answer_a,omitempty"`
	Choices     []int `json:"choices,omitempty"`
}

var c17Latencies = []time.Duration{0, 100 * time.Millisecond, 300 * time.Millisecond}

func (s c17Scn) describe() string {
	d := fmt.Sprintf("msgs=%d/%d size=%d latency=%v txbuf=%d", s.MsgsA, s.MsgsB, s.Size, c17Latencies[s.Latency], s.TxBuf)
	if s.LongSubject {
		d += " long subjects"
	}
	if s.Offset > 0 {
		d += fmt.Sprintf(" scripted remote accepting at offset %d (A-form: %v)", s.Offset, s.OffA)
	}
	return d
}

// c17Remote is the scripted CMS-style remote of the offset scenarios (slave: it speaks first).
func c17Remote(sc c17Scn, c net.Conn) error {
	rd := bufio.NewReader(c)
	line := func() (string, error) { s, err := rd.ReadString('\r'); return strings.TrimSuffix(s, "\r"), err }
	if _, err := c.Write([]byte("[WL2K-5.0-B2FWIHJM$]\rCMS via test >\r")); err != nil {
		return err
	}
	csize := 0
	for {
		l, err := line()
		if err != nil {
			return err
		}
		if f := strings.Fields(l); len(f) == 6 && f[0] == "FC" {
			fmt.Sscan(f[4], &csize)
		}
		if strings.HasPrefix(l, "F> ") {
			break
		}
	}
	off := sc.Offset
	if off >= csize {
		off = csize - 1
	}
	form := "!"
	if sc.OffA {
		form = "A"
	}
	if _, err := fmt.Fprintf(c, "FS %s%d\r", form, off); err != nil {
		return err
	}
	// the transfer: SOH len header, (STX n data)*, EOT checksum
	b, err := rd.ReadByte()
	if err != nil || b != 1 {
		return fmt.Errorf("remote: expected SOH, got %x %v", b, err)
	}
	n, _ := rd.ReadByte()
	if _, err := io.ReadFull(rd, make([]byte, n)); err != nil {
		return err
	}
	for {
		b, err := rd.ReadByte()
		if err != nil {
			return err
		}
		if b == 4 {
			rd.ReadByte()
			break
		}
		if b != 2 {
			return fmt.Errorf("remote: unexpected byte %x in the transfer", b)
		}
		k, _ := rd.ReadByte()
		size := int(k)
		if size == 0 {
			size = 256
		}
		if _, err := io.ReadFull(rd, make([]byte, size)); err != nil {
			return err
		}
	}
	if _, err := c.Write([]byte("FF\r")); err != nil {
		return err
	}
	if l, err := line(); err != nil || l != "FQ" {
		return fmt.Errorf("remote: expected FQ, got %q %v", l, err)
	}
	return nil
}

func c17Body(size, i int) string {
	switch size {
	case 0:
		return ""
	case 1:
		return lcgWords(260, uint32(i+1))
	default:
		return lcgWords(3800, uint32(i+1))
	}
}

func c17Subject(sc c17Scn, k int) string {
	if !sc.LongSubject {
		return ""
	}
	return fmt.Sprintf("a subject of one hundred and ten characters, which does not fit into the title field of a transfer %09d", k)
}

func lcgWords(n int, seed uint32) string {
	const letters = "etaoin shrdlucmfwypvbgkqjxz ETAOIN.,"
	b := make([]byte, n)
	x := seed*2654435761 + 99
	for i := range b {
		x = x*1664525 + 1013904223
		b[i] = letters[(x>>24)%uint32(len(letters))]
	}
	return string(b) + "\r\n"
}

type statusRec struct {
	Side        string
	Dir         string // send | recv
	MID         string
	Transferred int
	Total       int
	CSize       int
	Done        bool
	At          time.Duration
}

type c17Updater struct {
	side string
	recs *[]statusRec
}

func (u c17Updater) UpdateStatus(s fbb.Status) {
	r := statusRec{Side: u.side, Transferred: s.BytesTransferred, Total: s.BytesTotal, Done: s.Done, At: vs.Elapsed()}
	switch {
	case s.Sending != nil && s.Receiving == nil:
		r.Dir, r.MID, r.CSize = "send", s.Sending.MID(), s.Sending.CompressedSize()
		_ = s.Sending.Title() // a real updater shows what is being transferred
	case s.Receiving != nil && s.Sending == nil:
		r.Dir, r.MID, r.CSize = "recv", s.Receiving.MID(), s.Receiving.CompressedSize()
		_ = s.Receiving.Title()
	default:
		r.Dir = "neither-or-both"
	}
	*u.recs = append(*u.recs, r)
}

// plainConn hides everything but net.Conn (a transport that reports no transmit-buffer length).
type plainConn struct{ net.Conn }

type txConn struct {
	*vnet.TCPConn
	f func() int
}

func (t txConn) TxBufferLen() int { return t.f() }

// flushConn is a radio-style transport: it reports its transmit queue and its Flush blocks until the
// queue has gone over the air (longer than two of the Session's status ticks).
type flushConn struct{ txConn }

func (t flushConn) Flush() error {
	vtime.Sleep(600 * time.Millisecond)
	return nil
}

type c17Obs struct {
	recs     []statusRec
	errs     [2]error
	returned [2]bool
	boxes    [2]*sess.Box
}

func c17Harness(sc c17Scn, o *c17Obs) func() {
	return func() {
		*o = c17Obs{}
		a, b := vnet.Pipe("A", "B")
		a.WriteDelay, b.WriteDelay = c17Latencies[sc.Latency], c17Latencies[sc.Latency]
		conns := [2]net.Conn{}
		for i, c := range []*vnet.TCPConn{a, b} {
			c := c
			switch sc.TxBuf {
			case 0:
				conns[i] = plainConn{c}
			case 1:
				conns[i] = txConn{c, func() int { return 0 }}
			case 2:
				conns[i] = txConn{c, func() int { return 1 << 20 }}
			case 4:
				n := 900
				conns[i] = flushConn{txConn{c, func() int {
					if n > 0 {
						n -= 150
					}
					return n
				}}}
			default:
				n := 900
				conns[i] = txConn{c, func() int {
					if n > 0 {
						n -= 150
					}
					return n
				}}
			}
		}
		calls := [2]string{"N0AAA", "N0BBB"}
		for i := 0; i < 2; i++ {
			o.boxes[i] = sess.NewBox(calls[i])
		}
		for k := 0; k < sc.MsgsA; k++ {
			o.boxes[0].AddOut(sess.MsgSpec{MID: fmt.Sprintf("AMSG%08d", k), Body: c17Body(sc.Size, k), Subject: c17Subject(sc, k)}.Build(calls[0]))
		}
		for k := 0; k < sc.MsgsB; k++ {
			o.boxes[1].AddOut(sess.MsgSpec{MID: fmt.Sprintf("BMSG%08d", k), Body: c17Body(sc.Size, k+7), Subject: c17Subject(sc, k+7)}.Build(calls[1]))
		}
		for i := 0; i < 2; i++ {
			i := i
			if i == 1 && sc.Offset > 0 {
				vs.GoNamed("scripted-remote", true, func() {
					o.errs[1] = c17Remote(sc, conns[1])
					o.returned[1] = true
				})
				continue
			}
			vs.GoNamed("session-"+calls[i], true, func() {
				s := fbb.NewSession(calls[i], calls[1-i], "AA00aa", o.boxes[i])
				s.SetLogger(sess.Discard)
				s.IsMaster(i == 0 && sc.Offset == 0) // the scripted remote speaks first (it is the master)
				s.SetStatusUpdater(c17Updater{calls[i], &o.recs})
				_, o.errs[i] = s.Exchange(conns[i])
				o.returned[i] = true
			})
		}
		vs.WaitUntil("both exchanges returned", func() bool { return o.returned[0] && o.returned[1] })
		// let the reporter goroutines run to rest: they are not "required" threads
		vs.WaitQuiescent()
	}
}

type c17Finding struct{ Class, Detail string }

func c17Judge(sc c17Scn, o *c17Obs, res *vs.Result) []c17Finding {
	var out []c17Finding
	add := func(c, d string) { out = append(out, c17Finding{c, d}) }
	if res.Outcome == "panic" {
		add("panic|"+res.Panic.Site, res.Panic.Value)
		return out
	}
	for _, rc := range res.Races {
		add("data-race|"+locName(rc.Loc), fmt.Sprintf("%s (%s, write=%v) and %s (%s, write=%v) are not ordered by happens-before", rc.A, rc.ASite, rc.AWrite, rc.B, rc.BSite, rc.BWrite))
	}
	if res.Outcome != "done" {
		add("exchange-"+res.Outcome, fmt.Sprintf("%+v", res.Blocked))
		return out
	}
	for i := 0; i < 2; i++ {
		if o.errs[i] != nil {
			add("exchange-error", fmt.Sprintf("station %d: %v", i, o.errs[i]))
			return out
		}
	}
	// well-formedness
	type key struct{ side, dir, mid string }
	done := map[key]int{}
	afterDone := map[key]bool{}
	seen := map[key]bool{}
	for _, r := range o.recs {
		k := key{r.Side, r.Dir, r.MID}
		if r.Dir == "neither-or-both" {
			add("report-names-no-message", fmt.Sprintf("%+v", r))
			continue
		}
		seen[k] = true
		if r.Total != r.CSize {
			add("bytes-total-wrong", fmt.Sprintf("%+v", r))
		}
		if r.Transferred < 0 || r.Transferred > r.Total {
			shape := "negative"
			if r.Transferred > r.Total {
				shape = "above-total"
			}
			add("bytes-transferred-out-of-range|"+shape, fmt.Sprintf("%+v", r))
		}
		if done[k] > 0 {
			afterDone[k] = true
		}
		if r.Done {
			done[k]++
		}
	}
	expect := func(side, dir string, mids []string) {
		for _, mid := range mids {
			k := key{side, dir, mid}
			switch {
			case done[k] == 0:
				add("no-done-report|"+dir, fmt.Sprintf("%s %s %s: %d reports, none with Done", side, dir, mid, countRecs(o.recs, side, dir, mid)))
			case done[k] > 1:
				add("several-done-reports|"+dir, fmt.Sprintf("%s %s %s: %d Done reports", side, dir, mid, done[k]))
			case afterDone[k]:
				add("report-after-done|"+dir, fmt.Sprintf("%s %s %s", side, dir, mid))
			}
		}
	}
	var am, bm []string
	for k := 0; k < sc.MsgsA; k++ {
		am = append(am, fmt.Sprintf("AMSG%08d", k))
	}
	for k := 0; k < sc.MsgsB; k++ {
		bm = append(bm, fmt.Sprintf("BMSG%08d", k))
	}
	expect("N0AAA", "send", am)
	if sc.Offset == 0 {
		expect("N0BBB", "recv", am)
		expect("N0BBB", "send", bm)
	}
	expect("N0AAA", "recv", bm)
	for k := range seen {
		ok := false
		for _, m := range append(append([]string{}, am...), bm...) {
			if m == k.mid {
				ok = true
			}
		}
		if !ok || strings.HasPrefix(k.mid, "AMSG") != (k.side == "N0AAA" && k.dir == "send" || k.side == "N0BBB" && k.dir == "recv") {
			add("report-for-wrong-message", fmt.Sprintf("%+v", k))
		}
	}
	return out
}

func countRecs(recs []statusRec, side, dir, mid string) int {
	n := 0
	for _, r := range recs {
		if r.Side == side && r.Dir == dir && r.MID == mid {
			n++
		}
	}
	return n
}

func C17(args []string) {
	r := core.Begin("C17", "model_checking", args)
	var o c17Obs
	if p := replayPath(args); p != "" {
		var f struct {
			Case c17Scn `json:"case"`
		}
		readJSONFile(p, &f)
		res := vs.Run(vs.Config{Choices: f.Case.Choices, Horizon: time.Hour}, c17Harness(f.Case, &o))
		fmt.Printf("%s: outcome %s, %d status reports\n", f.Case.describe(), res.Outcome, len(o.recs))
		for _, x := range o.recs {
			fmt.Printf("  %+v\n", x)
		}
		for _, fd := range c17Judge(f.Case, &o, &res) {
			fmt.Printf("class=%q %s\n", fd.Class, fd.Detail)
		}
		return
	}
	var scns []c17Scn
	for _, m := range [][2]int{{1, 0}, {2, 0}, {1, 1}, {0, 1}} {
		for size := 0; size < 3; size++ {
			for lat := 0; lat < 3; lat++ {
				for tx := 0; tx < 4; tx++ {
					if !r.Thorough() && (size == 2 && (m[0]+m[1] > 1 || tx > 1 || lat == 0) || size == 1 && tx > 1 && m[0]+m[1] > 1) {
						continue
					}
					scns = append(scns, c17Scn{MsgsA: m[0], MsgsB: m[1], Size: size, Latency: lat, TxBuf: tx})
				}
			}
		}
	}
	// subjects longer than the transfer's title field
	for _, m := range [][2]int{{1, 0}, {2, 0}, {1, 1}} {
		for _, lat := range []int{0, 1} {
			scns = append(scns, c17Scn{MsgsA: m[0], MsgsB: m[1], Size: 1, Latency: lat, LongSubject: true})
		}
	}
	// a transport with a blocking Flush and a transmit queue (as the radio transports have)
	for _, m := range [][2]int{{1, 0}, {1, 1}} {
		for _, lat := range []int{0, 1} {
			scns = append(scns, c17Scn{MsgsA: m[0], MsgsB: m[1], Size: 1, Latency: lat, TxBuf: 4})
		}
	}
	// the sender's resumed-transfer path: a scripted remote accepts the proposal at an offset
	for _, off := range []int{1, 40, 125, 100000} { // 100000: clipped to the compressed size - 1
		for _, size := range []int{1, 2} {
			for _, lat := range []int{0, 2} {
				scns = append(scns, c17Scn{MsgsA: 1, Size: size, Latency: lat, TxBuf: lat, Offset: off, OffA: off == 40})
			}
		}
	}
	maxBound := 1
	if r.Thorough() {
		maxBound = 2
	}
	r.Sharded(len(scns), func(i int) {
		sc := scns[i]
		e := &vs.Explorer{Harness: c17Harness(sc, &o), Mode: vs.Chess, Cfg: vs.Config{Horizon: time.Hour, MaxSteps: 100000}, MaxExec: 4000}
		if r.Thorough() {
			e.MaxExec = 150000
			e.Deadline = time.Now().Add(10 * time.Minute) // per scenario; a cap is reported, never a verdict
		}
		e.Check = func(choices []int, res *vs.Result) {
			r.Evals.Add(1)
			r.Heartbeat()
			for _, fd := range c17Judge(sc, &o, res) {
				v := sc
				v.Choices = append([]int{}, choices...)
				r.Violation("C17|"+fd.Class, sc.describe()+": "+fd.Detail, v)
			}
			r.Key(fmt.Sprintf("%s/%d", res.Outcome, len(o.recs)))
		}
		completed := e.RunIterative(maxBound)
		if e.Capped {
			r.Cap("scenario %s: exploration capped inside bound %d after %d schedules (bound %d completed)", sc.describe(), e.Bound, e.Execs, completed)
		}
		r.Nontrivial.Add(int64(e.Interleaved))
		r.Add("schedules", int64(e.Execs))
		r.Add("visible_steps", e.Steps)
		r.Add("states", int64(len(e.States)))
		r.Add("replayed_identically", int64(e.Replayed))
		if i%9 == 0 {
			r.Sample(map[string]any{"scenario": sc.describe(), "schedules": e.Execs, "bound_completed": completed, "max_choice_points": e.MaxPoints})
		}
	}, core.ShardOpts{Watchdog: 600 * time.Second})
	// the free-running race-detector pass runs in the plain binary (real runtime, un-rewritten fbb)
	if !r.IsChild() {
		if died, kind, tail := r.RunForeign(filepath.Join(core.Root, "bin", "vcheck"), "C17race", nil, 30*time.Minute); died {
			core.Infra("C17 free-running part failed (%s): %s", kind, core.Trunc(tail, 1500))
		}
	}
	add := r.Added()
	r.Finish(core.Coverage{
		"free_running_race_detector_exchanges": add["free_running_exchanges"], "free_running_pass_skipped": add["free_running_pass_skipped"],
		"states":                        add["states"],
		"transitions":                   add["visible_steps"],
		"traces_validated_against_impl": add["replayed_identically"],
		"distinct_nontrivial":           r.Nontrivial.Load(),
		"rule":                          "one evaluation = one schedule (thread interleaving + timer placement) of two real Sessions of the rewritten fbb package with status updaters installed, over an in-memory link with per-write virtual latency; non-trivial = schedules in which at least two threads were enabled at once",
		"scenarios":                     len(scns), "schedules": add["schedules"], "preemption_bound": maxBound, "distinct_outcomes": len(r.Keys()),
	}, []string{
		"race oracle: happens-before (vector clocks) over the accesses the rewriter instruments - package-level variables and locals captured by go-closures (exactly where the transfer buffers live); struct fields reached through pointers handed to other functions are not tracked",
		"CHESS-mode exploration with iterative preemption bounding plus timer-first deviations; the 250 ms ticker runs on virtual time",
		"supplementary, not deciding: the same harness bodies run free on the real runtime under Go's race detector (verif/racecheck; 78 exchanges per round, 1 round quick / 12 thorough); a report there is a violation, silence there decides nothing",
	})
}
