package gprops

import (
	"errors"
	"fmt"
	"net"
	"sort"
	"strings"
	"time"

	"github.com/anishathalye/porcupine"
	"github.com/la5nta/wl2k-go/transport"

	"verif/core"
	"verif/vs"
)

func init() { Registry["C19"] = C19Registry }

type regOp struct {
	Kind   string // register unregister dial
	Scheme string
	Dialer string // for register; for dial: the observed result ("missing" or dialer id)
}

type fakeDialer struct{ id string }

func (d fakeDialer) DialURL(u *transport.URL) (net.Conn, error) {
	return nil, errors.New("dialed:" + d.id)
}

var regModel = porcupine.Model{
	Init: func() interface{} { return "" },
	Step: func(state, input, output interface{}) (bool, interface{}) {
		st := decodeReg(state.(string))
		in := input.(regOp)
		switch in.Kind {
		case "register":
			st[in.Scheme] = in.Dialer
			return true, encodeReg(st)
		case "unregister":
			delete(st, in.Scheme)
			return true, encodeReg(st)
		default:
			want := "missing"
			if d, ok := st[in.Scheme]; ok {
				want = d
			}
			return output.(string) == want, state
		}
	},
	Equal: func(a, b interface{}) bool { return a.(string) == b.(string) },
}

func decodeReg(s string) map[string]string {
	m := map[string]string{}
	for _, kv := range strings.Split(s, ",") {
		if p := strings.SplitN(kv, "=", 2); len(p) == 2 {
			m[p[0]] = p[1]
		}
	}
	return m
}

func encodeReg(m map[string]string) string {
	var ks []string
	for k, v := range m {
		ks = append(ks, k+"="+v)
	}
	sort.Strings(ks)
	return strings.Join(ks, ",")
}

type c19Case struct {
	Choices  []int  `json:"choices"`
	Scenario string `json:"scenario,omitempty"`
}

// c19Harness builds the three-thread registry scenario; events receives the history.
func c19Harness(events *[]porcupine.Event) func() {
	return func() {
		transport.VerifReset()
		*events = (*events)[:0]
		id := 0
		do := func(client int, op regOp) {
			id++
			my := id
			*events = append(*events, porcupine.Event{ClientId: client, Kind: porcupine.CallEvent, Value: op, Id: my})
			out := ""
			switch op.Kind {
			case "register":
				transport.RegisterDialer(op.Scheme, fakeDialer{op.Dialer})
			case "unregister":
				transport.UnregisterDialer(op.Scheme)
			case "dial":
				_, err := transport.DialURL(&transport.URL{Scheme: op.Scheme, Target: "N0CALL"})
				switch {
				case err == transport.ErrMissingDialer:
					out = "missing"
				case err != nil && strings.HasPrefix(err.Error(), "dialed:"):
					out = strings.TrimPrefix(err.Error(), "dialed:")
				default:
					out = fmt.Sprintf("unexpected:%v", err)
				}
			}
			*events = append(*events, porcupine.Event{ClientId: client, Kind: porcupine.ReturnEvent, Value: out, Id: my})
		}
		done := vs.NewChan[int](3)
		vs.GoNamed("registrar-1", true, func() {
			do(0, regOp{"register", "x", "A"})
			do(0, regOp{"register", "y", "A"})
			done.Send(1)
		})
		vs.GoNamed("registrar-2", true, func() {
			do(1, regOp{"register", "x", "B"})
			do(1, regOp{"unregister", "x", ""})
			done.Send(1)
		})
		vs.GoNamed("dialler", true, func() {
			do(2, regOp{"dial", "x", ""})
			do(2, regOp{"dial", "x", ""})
			do(2, regOp{"dial", "z", ""})
			do(2, regOp{"dial", "x+z", ""}) // a scheme of its own, never registered, whatever happens to "x"
			do(2, regOp{"dial", "y", ""})
			done.Send(1)
		})
		for i := 0; i < 3; i++ {
			done.Recv()
		}
	}
}

// aliasDialer dials another scheme through the registry (a dialer may itself use transport.DialURL).
type aliasDialer struct{ to string }

func (d aliasDialer) DialURL(u *transport.URL) (net.Conn, error) {
	return transport.DialURL(&transport.URL{Scheme: d.to, Target: u.Target})
}

// c19AliasHarness: a dial through an alias while another thread re-registers the target scheme. The
// dial must return, and with the dialer that was registered for the target scheme at some moment.
func c19AliasHarness(result *string) func() {
	return func() {
		transport.VerifReset()
		*result = ""
		done := vs.NewChan[int](2)
		transport.RegisterDialer("x", fakeDialer{"A"})
		transport.RegisterDialer("alias", aliasDialer{"x"})
		vs.GoNamed("dialler", true, func() {
			_, err := transport.DialURL(&transport.URL{Scheme: "alias", Target: "N0CALL"})
			*result = fmt.Sprint(err)
			done.Send(1)
		})
		vs.GoNamed("registrar", true, func() {
			transport.RegisterDialer("x", fakeDialer{"B"})
			done.Send(1)
		})
		done.Recv()
		done.Recv()
	}
}

// C19Registry explores all interleavings of concurrent register / unregister / dial calls.
func C19Registry(args []string) {
	r := core.Begin("C19", "model_checking", args)
	var events []porcupine.Event
	h := c19Harness(&events)
	if p := replayPath(args); p != "" {
		var f struct {
			Case c19Case `json:"case"`
		}
		readJSONFile(p, &f)
		if f.Case.Scenario == "alias" {
			var out string
			res := vs.Run(vs.Config{Choices: f.Case.Choices}, c19AliasHarness(&out))
			fmt.Printf("alias scenario: outcome %s result %q blocked %+v\n", res.Outcome, out, res.Blocked)
			return
		}
		res := vs.Run(vs.Config{Choices: f.Case.Choices}, h)
		fmt.Printf("outcome %s races %+v\nhistory %+v\nlinearizable=%v\n", res.Outcome, res.Races, events, porcupine.CheckEvents(regModel, events))
		return
	}
	outcomes := map[string]bool{}
	// CHESS mode: switches at blocking points are free, preemptions are bounded
	e := &vs.Explorer{Harness: h, Mode: vs.Chess, Cfg: vs.Config{NoTimerFirst: true}}
	maxBound := 3
	if r.Thorough() {
		maxBound = 6
		e.Deadline = time.Now().Add(8 * time.Minute)
	}
	e.Check = func(choices []int, res *vs.Result) {
		r.Evals.Add(1)
		c := c19Case{Choices: append([]int{}, choices...)}
		switch {
		case res.Outcome == "panic":
			r.Violation("C19|registry|panic|"+res.Panic.Site, res.Panic.Value, c)
			return
		case res.Outcome != "done":
			r.Violation("C19|registry|"+res.Outcome, fmt.Sprintf("%+v", res.Blocked), c)
			return
		}
		for _, rc := range res.Races {
			r.Violation("C19|registry|data-race|"+locName(rc.Loc), fmt.Sprintf("%s (%s, write=%v) and %s (%s, write=%v) are not ordered by happens-before", rc.A, rc.ASite, rc.AWrite, rc.B, rc.BSite, rc.BWrite), c)
		}
		var outs []string
		for _, ev := range events {
			if ev.Kind == porcupine.ReturnEvent && ev.Value.(string) != "" {
				outs = append(outs, ev.Value.(string))
				if strings.HasPrefix(ev.Value.(string), "unexpected:") {
					r.Violation("C19|registry|dial-result", ev.Value.(string), c)
				}
			}
		}
		outcomes[strings.Join(outs, ",")] = true
		if !porcupine.CheckEvents(regModel, events) {
			r.Violation("C19|registry|not-linearizable", fmt.Sprintf("history %+v", events), c)
		}
		if e.Execs%5000 == 1 {
			r.Sample(map[string]any{"registry_schedule": choices, "dial_results": outs})
		}
	}
	completed := e.RunIterative(maxBound)
	if e.Capped {
		r.Cap("registry exploration stopped by its time budget inside preemption bound %d after %d schedules (bound %d completed)", e.Bound, e.Execs, completed)
	}
	// second scenario: a dialer that dials through the registry itself
	var aliasResult string
	ea := &vs.Explorer{Harness: c19AliasHarness(&aliasResult), Mode: vs.Chess, Cfg: vs.Config{NoTimerFirst: true}, MaxExec: 200000}
	ea.Check = func(choices []int, res *vs.Result) {
		r.Evals.Add(1)
		c := map[string]any{"scenario": "alias", "choices": append([]int{}, choices...)}
		switch {
		case res.Outcome == "panic":
			r.Violation("C19|registry|panic|"+res.Panic.Site, res.Panic.Value, c)
		case res.Outcome != "done":
			r.Violation("C19|registry|dial-through-alias-"+res.Outcome, fmt.Sprintf("a dialer that dials another scheme through the registry never returns: %+v", res.Blocked), c)
		case aliasResult != "dialed:A" && aliasResult != "dialed:B":
			r.Violation("C19|registry|dial-result", "dial through the alias returned "+aliasResult, c)
		}
		for _, rc := range res.Races {
			r.Violation("C19|registry|data-race|"+locName(rc.Loc), fmt.Sprintf("%s (%s) and %s (%s) are not ordered by happens-before", rc.A, rc.ASite, rc.B, rc.BSite), c)
		}
	}
	ea.RunIterative(maxBound)
	r.Add("registry_alias_schedules", int64(ea.Execs))
	r.Nontrivial.Add(int64(e.Interleaved + ea.Interleaved))
	r.Add("registry_schedules", int64(e.Execs))
	r.Add("registry_states", int64(len(e.States)))
	r.Add("registry_visible_steps", e.Steps)
	r.Add("registry_distinct_outcomes", int64(len(outcomes)))
	r.Add("registry_replayed_identically", int64(e.Replayed))
	r.Add("registry_preemption_bound_completed", int64(completed))
	r.Finish(nil, nil)
}

func locName(loc string) string {
	if i := strings.LastIndex(loc, ":"); i >= 0 {
		return loc[i+1:]
	}
	return loc
}
