// Package gprops holds the checks that run on the rewritten ("govs") and seam-instrumented
// packages; it only builds with `-overlay <generated> -tags verif`.
package gprops

import (
	"encoding/json"
	"fmt"
	"os"

	"verif/core"

	_ "github.com/la5nta/wl2k-go/fbb"
	_ "github.com/la5nta/wl2k-go/mailbox"
	_ "github.com/la5nta/wl2k-go/transport"
	_ "github.com/la5nta/wl2k-go/transport/ardop"
	_ "github.com/la5nta/wl2k-go/transport/ax25/agwpe"
	_ "github.com/la5nta/wl2k-go/transport/telnet"
)

var Registry = map[string]func(args []string){}

func replayPath(args []string) string {
	for i, a := range args {
		if a == "--replay" && i+1 < len(args) {
			return args[i+1]
		}
	}
	return ""
}

func readJSONFile(path string, v any) {
	b, err := os.ReadFile(path)
	if err != nil {
		core.Infra("replay: %v", err)
	}
	if err := json.Unmarshal(b, v); err != nil {
		core.Infra("replay: %v", err)
	}
}

func init() { Registry["buildgovs"] = func([]string) { fmt.Println("vgovs built") } }
