package gprops

import (
	"encoding/json"
	"fmt"
	"os/exec"
	"path/filepath"
	"sort"
	"strings"
	"time"

	"verif/core"
	"verif/shimprogs"
	"verif/vs"
)

func init() { Registry["shimtest"] = ShimTest }

// ShimTest is the shim-conformance suite (DESIGN.md §4.1 "keeping the rewritten program bound to the
// real one", Appendix G): the micro-programs in verif/shimprogs are rewritten by the same rewriter
// as the packages under test and explored under the controlled scheduler; every outcome observed
// on the real runtime (200 free runs each, by `vcheck shimreal`) must be among the explored
// outcomes, with equality for the deterministic programs. A failure is an infrastructure error.
func ShimTest(args []string) {
	raw, err := exec.Command(filepath.Join(core.Root, "bin", "vcheck"), "shimreal").Output()
	if err != nil {
		core.Infra("shimreal: %v", err)
	}
	real := map[string][]string{}
	if err := json.Unmarshal(raw, &real); err != nil {
		core.Infra("shimreal output: %v", err)
	}
	bad := 0
	totalExecs := 0
	for _, p := range shimprogs.Programs {
		outcomes := map[string]bool{}
		var last string
		e := &vs.Explorer{Mode: vs.DelayBounded, Cfg: vs.Config{Horizon: time.Hour, MaxSteps: 20000}, MaxExec: 200000,
			Harness: func() { last = ""; last = p.F() }}
		e.Check = func(ch []int, r *vs.Result) {
			o := last
			if r.Outcome != "done" {
				o = "<" + r.Outcome + ">"
				if r.Panic != nil {
					o += r.Panic.Value
				}
			}
			outcomes[o] = true
		}
		completed := e.RunIterative(3)
		totalExecs += e.Execs
		var got []string
		for o := range outcomes {
			got = append(got, o)
		}
		sort.Strings(got)
		ok := true
		for _, o := range real[p.Name] {
			if !outcomes[o] {
				ok = false
			}
		}
		if p.Det && (len(got) != 1 || len(real[p.Name]) != 1) {
			ok = false
		}
		status := "ok"
		if !ok {
			status = "MISMATCH"
			bad++
		}
		fmt.Printf("%-8s %-62s bound %d, %6d schedules: real {%s} govs {%s}\n", status, p.Name, completed, e.Execs, strings.Join(real[p.Name], " | "), strings.Join(got, " | "))
	}
	if bad > 0 {
		core.Infra("shim conformance: %d of %d programs disagree with the real runtime", bad, len(shimprogs.Programs))
	}
	fmt.Printf("shim conformance ok: %d programs, %d schedules explored\n", len(shimprogs.Programs), totalExecs)
}
