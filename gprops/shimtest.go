package gprops

import (
	"encoding/json"
	"fmt"
	"os/exec"
	"path/filepath"
	"sort"
	"strings"
	"time"

	"verif/core"
	"verif/shimprogs"
	"verif/vs"
)

func init() { Registry["shimtest"] = ShimTest }

// ShimTest is the shim-conformance suite (DESIGN.md §4.1 "keeping the rewritten program bound to the
// real one", Appendix G): the micro-programs in verif/shimprogs are rewritten by the same rewriter
// as the packages under test and explored under the controlled scheduler; every outcome observed
// on the real runtime (200 free runs each, by `vcheck shimreal`) must be among the explored
// outcomes, with equality for the deterministic programs. A failure is an infrastructure error.
func ShimTest(args []string) {
	raw, err := exec.Command(filepath.Join(core.Root, "bin", "vcheck"), "shimreal").Output()
	if err != nil {
		core.Infra("shimreal: %v", err)
	}
	real := map[string][]string{}
	if err := json.Unmarshal(raw, &real); err != nil {
		core.Infra("shimreal output: %v", err)
	}
	bad := 0
	totalExecs := 0
	for _, p := range shimprogs.Programs {
		outcomes := map[string]bool{}
		var last string
		e := &vs.Explorer{Mode: vs.DelayBounded, Cfg: vs.Config{Horizon: time.Hour, MaxSteps: 20000}, MaxExec: 200000,
			Harness: func() { last = ""; last = p.F() }}
		e.Check = func(ch []int, r *vs.Result) {
			o := last
			if r.Outcome != "done" {
				o = "<" + r.Outcome + ">"
				if r.Panic != nil {
					o += r.Panic.Value
				}
			}
			outcomes[o] = true
		}
		completed := e.RunIterative(3)
		totalExecs += e.Execs
		var got []string
		for o := range outcomes {
			got = append(got, o)
		}
		sort.Strings(got)
		ok := true
		for _, o := range real[p.Name] {
			if !outcomes[o] {
				ok = false
			}
		}
		if p.Det && (len(got) != 1 || len(real[p.Name]) != 1) {
			ok = false
		}
		status := "ok"
		if !ok {
			status = "MISMATCH"
			bad++
		}
		fmt.Printf("%-8s %-62s bound %d, %6d schedules: real {%s} govs {%s}\n", status, p.Name, completed, e.Execs, strings.Join(real[p.Name], " | "), strings.Join(got, " | "))
	}
	if bad > 0 {
		core.Infra("shim conformance: %d of %d programs disagree with the real runtime", bad, len(shimprogs.Programs))
	}
	// race oracle: racy programs are reported in some schedule on the expected location, clean
	// programs in none (and none of them panics: the hoisted instrumentation dereferences nothing
	// the program would not)
	for _, p := range shimprogs.RacePrograms {
		reported := map[string]bool{}
		other := ""
		e := &vs.Explorer{Mode: vs.DelayBounded, Cfg: vs.Config{Horizon: time.Hour, MaxSteps: 20000}, MaxExec: 200000, Harness: p.F}
		e.Check = func(ch []int, r *vs.Result) {
			if r.Outcome != "done" {
				other = r.Outcome
				if r.Panic != nil {
					other += ": " + r.Panic.Value
				}
			}
			for _, rc := range r.Races {
				reported[rc.Loc] = true
			}
		}
		completed := e.RunIterative(3)
		totalExecs += e.Execs
		ok := other == ""
		if p.Racy == "" {
			ok = ok && len(reported) == 0
		} else {
			hit := false
			for l := range reported {
				if strings.HasSuffix(l, p.Racy) {
					hit = true
				}
			}
			ok = ok && hit
		}
		status := "ok"
		if !ok {
			status = "MISMATCH"
			bad++
		}
		fmt.Printf("%-8s race oracle: %-70s bound %d, %5d schedules: expected {%s} reported %v %s\n", status, p.Name, completed, e.Execs, p.Racy, keysOf(reported), other)
	}
	if bad > 0 {
		core.Infra("race oracle conformance: %d programs disagree", bad)
	}
	fmt.Printf("shim conformance ok: %d programs + %d race-oracle programs, %d schedules explored\n", len(shimprogs.Programs), len(shimprogs.RacePrograms), totalExecs)
}

func keysOf(m map[string]bool) []string {
	var out []string
	for k := range m {
		out = append(out, k)
	}
	sort.Strings(out)
	return out
}
