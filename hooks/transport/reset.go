//go:build verif

package transport

// VerifReset puts the dialer registry back into its initial state between explored executions
// (whatever the type of its fields is).
func VerifReset() { verifZero(&dialers) }

func verifZero[T any](p *T) {
	var z T
	*p = z
}
