// Package link is a deterministic two-party duplex byte link. Both parties are real goroutines but
// only the baton holder runs (run-until-blocked); what each Read returns is a function of the
// stream content and the segmentation / cut plan only, never of timing. See DESIGN.md §4.2.
package link

import (
	"errors"
	"fmt"
	"io"
	"net"
	"sync"
	"syscall"
	"time"
)

// Seg is a segmentation plan for one direction: offsets at which a Read must stop.
type Seg struct {
	Every int   // if > 0: a Read never crosses a multiple of Every
	Cuts  []int // sorted offsets a Read never crosses
}

func (s Seg) limit(off int) int {
	lim := 1 << 30
	if s.Every > 0 {
		lim = s.Every - off%s.Every
	}
	for _, c := range s.Cuts {
		if c > off {
			if c-off < lim {
				lim = c - off
			}
			break
		}
	}
	return lim
}

// Plan describes the environment of one run.
type Plan struct {
	Seg [2]Seg // Seg[d]: direction d (0: party0 -> party1, 1: party1 -> party0)
	// Cut[d] >= 0: direction d delivers exactly its first Cut[d] bytes, then the reader sees CutErr.
	Cut [2]int
	// Coupled: when a cut takes effect (its reader sees the error) the whole link goes down; the
	// other direction then delivers what was written so far (InFlightLost=false) or nothing more.
	Coupled      bool
	InFlightLost bool
	Reset        bool // readers see "connection reset" instead of io.EOF after a cut
	// FailAfter: number of Write calls that still succeed (bytes lost) once a direction is dead;
	// -1 = writes never fail.
	FailAfter int
	// PeerClosedWritesFail: a Write after the peer has closed its end fails with EPIPE instead of
	// being silently dropped.
	PeerClosedWritesFail bool
	MaxOps               int
	// Window > 0: flow control. A Write blocks (hands the baton over) while at least Window bytes of its
	// direction are delivered but not yet read; it then accepts the whole buffer (a socket buffer of
	// about Window bytes; 1 = as synchronous as net.Pipe). 0 = writes never block.
	Window int
	// Edits[d]: in-transit alterations of direction d, at offsets of the writer's stream, sorted.
	Edits [2][]Edit
}

// Edit replaces Del bytes at writer offset Off by Ins (man in the middle).
type Edit struct {
	Off int
	Del int
	Ins []byte
}

// apply maps the bytes p written at writer offset base through the edits.
func applyEdits(edits []Edit, base int, p []byte) []byte {
	if len(edits) == 0 {
		return p
	}
	out := make([]byte, 0, len(p)+8)
	for i := 0; i < len(p); i++ {
		w := base + i
		skip := false
		for _, e := range edits {
			if e.Off == w {
				out = append(out, e.Ins...)
			}
			if w >= e.Off && w < e.Off+e.Del {
				skip = true
			}
		}
		if !skip {
			out = append(out, p[i])
		}
	}
	return out
}

func NoCut() [2]int { return [2]int{-1, -1} }

type Event struct {
	Party int
	Op    string // "R" "W" "C" "D"(deadline) "EOFINJ" "DOWN"
	N     int
	Err   string
}

type stream struct {
	data    []byte // delivered bytes
	all     []byte // everything the writer wrote (including lost bytes)
	rpos    int
	cut     int
	dead    bool // nothing more is delivered
	postCut int  // writes since dead
	wclosed bool
	rclosed bool
}

type Link struct {
	mu       sync.Mutex
	cond     *sync.Cond
	plan     Plan
	turn     int
	state    [2]int // 0 not started, 1 running, 2 blocked, 3 finished
	dir      [2]*stream
	down     bool
	injected bool
	ops      int
	Events   []Event
	Closes   [2]int
	Deadlock bool // both parties blocked with nothing in flight (EOF was injected to resolve)
	Horizon  bool // MaxOps reached
	CutHit   [2]bool
	wblocked [2]bool      // party is blocked in Write (flow control), not in Read
	OnSwitch func(to int) // called with the lock held whenever the baton moves
}

// HorizonAbort is raised in a party that exceeded the operation horizon (Link.Horizon is set).
type HorizonAbort struct{}

func (HorizonAbort) String() string {
	return "operation horizon of the link reached: the station keeps calling Read/Write without end"
}

var errReset = &net.OpError{Op: "read", Net: "link", Err: syscall.ECONNRESET}

func New(p Plan) *Link {
	l := &Link{plan: p}
	l.cond = sync.NewCond(&l.mu)
	for d := 0; d < 2; d++ {
		l.dir[d] = &stream{cut: p.Cut[d]}
		if p.Cut[d] == 0 {
			l.dir[d].dead = true
		}
	}
	if l.plan.MaxOps == 0 {
		l.plan.MaxOps = 2000000
	}
	return l
}

// Conn returns party i's end.
func (l *Link) Conn(i int) *Conn { return &Conn{l: l, i: i} }

// Written returns everything party i wrote (including bytes lost after a cut).
func (l *Link) Written(i int) []byte { return l.dir[i].all }

// Delivered returns the bytes of direction d that were deliverable to its reader.
func (l *Link) Delivered(d int) []byte { return l.dir[d].data }

// Consumed returns how many bytes of direction d its reader has read.
func (l *Link) Consumed(d int) int { return l.dir[d].rpos }

// Run executes the two party functions under the baton and returns when both have returned.
func (l *Link) Run(f0, f1 func(c *Conn)) {
	var wg sync.WaitGroup
	fs := []func(c *Conn){f0, f1}
	for i := 0; i < 2; i++ {
		wg.Add(1)
		go func(i int) {
			defer wg.Done()
			l.mu.Lock()
			for l.turn != i {
				l.cond.Wait()
			}
			l.state[i] = 1
			l.mu.Unlock()
			fs[i](l.Conn(i))
			l.mu.Lock()
			l.state[i] = 3
			if l.state[1-i] != 3 {
				l.switchTo(1 - i)
			}
			l.mu.Unlock()
		}(i)
	}
	wg.Wait()
}

func (l *Link) switchTo(i int) {
	l.turn = i
	if l.OnSwitch != nil {
		l.OnSwitch(i)
	}
	l.cond.Broadcast()
}

func (l *Link) ev(party int, op string, n int, err error) {
	e := Event{Party: party, Op: op, N: n}
	if err != nil {
		e.Err = err.Error()
	}
	if len(l.Events) < 200000 { // enough to read any replay; a spinning station must not exhaust memory
		l.Events = append(l.Events, e)
	}
}

type Conn struct {
	l        *Link
	i        int
	closed   bool
	TxBuf    func() int // optional transport.TxBuffer behaviour (see TxConn)
	Flushes  int
	Deadline []time.Time
}

func (c *Conn) cutErr() error {
	if c.l.plan.Reset {
		return errReset
	}
	return io.EOF
}

func (c *Conn) Read(p []byte) (int, error) {
	l := c.l
	l.mu.Lock()
	defer l.mu.Unlock()
	s := l.dir[1-c.i]
	for {
		l.ops++
		if l.ops > l.plan.MaxOps {
			// a station that keeps calling Read without end (a spin on the link's answers) cannot be
			// stopped by an answer: it is stopped by a panic the session runners recognise
			l.Horizon = true
			panic(HorizonAbort{})
		}
		if c.closed {
			l.ev(c.i, "R", 0, net.ErrClosed)
			return 0, net.ErrClosed
		}
		if len(p) == 0 {
			return 0, nil
		}
		if avail := len(s.data) - s.rpos; avail > 0 {
			n := len(p)
			if avail < n {
				n = avail
			}
			if lim := l.plan.Seg[1-c.i].limit(s.rpos); lim < n {
				n = lim
			}
			copy(p, s.data[s.rpos:s.rpos+n])
			s.rpos += n
			l.ev(c.i, "R", n, nil)
			return n, nil
		}
		if s.cut >= 0 && s.rpos >= s.cut || s.dead && l.down {
			// the failure becomes visible to this reader
			if !l.CutHit[1-c.i] {
				l.CutHit[1-c.i] = true
				l.ev(c.i, "DOWN", s.rpos, nil)
			}
			if l.plan.Coupled && !l.down {
				l.down = true
				o := l.dir[c.i]
				o.dead = true
				if l.plan.InFlightLost {
					o.data = o.data[:o.rpos]
				}
			}
			err := c.cutErr()
			l.ev(c.i, "R", 0, err)
			return 0, err
		}
		if s.wclosed || l.injected {
			l.ev(c.i, "R", 0, io.EOF)
			return 0, io.EOF
		}
		// nothing to read: hand the baton over
		l.state[c.i] = 2
		if o := l.state[1-c.i]; o == 3 || o == 2 && !l.runnable(1-c.i) {
			l.Deadlock = true
			l.injected = true
			l.ev(c.i, "EOFINJ", 0, nil)
			l.state[c.i] = 1
			continue
		}
		l.switchTo(1 - c.i)
		for l.turn != c.i {
			l.cond.Wait()
		}
		l.state[c.i] = 1
	}
}

// runnable reports whether party j, blocked in Read or (flow control) in Write, would get on if it
// had the baton.
func (l *Link) runnable(j int) bool {
	if l.wblocked[j] {
		s := l.dir[j]
		return len(s.data)-s.rpos < l.plan.Window || s.dead || s.rclosed || l.injected
	}
	return l.readable(j)
}

// readable reports whether party j, blocked in Read, would get a result if it had the baton.
func (l *Link) readable(j int) bool {
	s := l.dir[1-j]
	return len(s.data)-s.rpos > 0 || s.cut >= 0 && s.rpos >= s.cut || s.dead && l.down || s.wclosed || l.injected
}

func (c *Conn) Write(p []byte) (int, error) {
	l := c.l
	l.mu.Lock()
	defer l.mu.Unlock()
	s := l.dir[c.i]
	l.ops++
	if l.ops > l.plan.MaxOps {
		l.Horizon = true
		panic(HorizonAbort{})
	}
	if c.closed {
		l.ev(c.i, "W", 0, net.ErrClosed)
		return 0, net.ErrClosed
	}
	if s.dead {
		if l.plan.FailAfter >= 0 && s.postCut >= l.plan.FailAfter {
			err := &net.OpError{Op: "write", Net: "link", Err: syscall.EPIPE}
			l.ev(c.i, "W", 0, err)
			return 0, err
		}
		s.postCut++
		s.all = append(s.all, p...)
		l.ev(c.i, "W", len(p), nil)
		return len(p), nil
	}
	if s.rclosed {
		if l.plan.PeerClosedWritesFail {
			err := &net.OpError{Op: "write", Net: "link", Err: syscall.EPIPE}
			l.ev(c.i, "W", 0, err)
			return 0, err
		}
		s.all = append(s.all, p...)
		l.ev(c.i, "W", len(p), nil)
		return len(p), nil
	}
	// flow control: wait until the reader has made room
	for l.plan.Window > 0 && !s.dead && !s.rclosed && !c.closed && !l.injected && len(s.data)-s.rpos >= l.plan.Window {
		if o := l.state[1-c.i]; o == 3 {
			break // the peer has returned without closing: nobody will ever read, the bytes are dropped
		} else if o == 2 && !l.runnable(1-c.i) {
			// both parties wait for the other to read: a genuine deadlock of the two stations
			l.Deadlock = true
			l.injected = true
			l.ev(c.i, "EOFINJ", 0, nil)
			break
		}
		l.state[c.i], l.wblocked[c.i] = 2, true
		l.ev(c.i, "WBLOCK", len(s.data)-s.rpos, nil)
		l.switchTo(1 - c.i)
		for l.turn != c.i {
			l.cond.Wait()
		}
		l.state[c.i], l.wblocked[c.i] = 1, false
	}
	if s.dead || s.rclosed || c.closed || l.injected {
		// the link state changed while this Write was blocked: same answers as above
		switch {
		case c.closed:
			l.ev(c.i, "W", 0, net.ErrClosed)
			return 0, net.ErrClosed
		case l.injected, s.rclosed && l.plan.PeerClosedWritesFail, s.dead && l.plan.FailAfter >= 0 && s.postCut >= l.plan.FailAfter:
			err := &net.OpError{Op: "write", Net: "link", Err: syscall.EPIPE}
			l.ev(c.i, "W", 0, err)
			return 0, err
		}
		if s.dead {
			s.postCut++
		}
		s.all = append(s.all, p...)
		l.ev(c.i, "W", len(p), nil)
		return len(p), nil
	}
	n := len(p)
	if s.cut >= 0 && len(s.all)+n >= s.cut {
		n = s.cut - len(s.all)
		s.dead = true
	}
	s.data = append(s.data, applyEdits(l.plan.Edits[c.i], len(s.all), p[:n])...)
	s.all = append(s.all, p...)
	l.ev(c.i, "W", len(p), nil)
	return len(p), nil
}

func (c *Conn) Close() error {
	l := c.l
	l.mu.Lock()
	defer l.mu.Unlock()
	l.Closes[c.i]++
	l.ev(c.i, "C", 0, nil)
	if c.closed {
		return nil
	}
	c.closed = true
	l.dir[c.i].wclosed = true
	l.dir[1-c.i].rclosed = true
	return nil
}

func (c *Conn) Closed() bool { c.l.mu.Lock(); defer c.l.mu.Unlock(); return c.closed }

type addr string

func (a addr) Network() string { return "link" }
func (a addr) String() string  { return string(a) }

func (c *Conn) LocalAddr() net.Addr  { return addr(fmt.Sprintf("party%d", c.i)) }
func (c *Conn) RemoteAddr() net.Addr { return addr(fmt.Sprintf("party%d", 1-c.i)) }
func (c *Conn) SetDeadline(t time.Time) error {
	c.l.mu.Lock()
	c.Deadline = append(c.Deadline, t)
	c.l.mu.Unlock()
	return nil
}
func (c *Conn) SetReadDeadline(t time.Time) error  { return c.SetDeadline(t) }
func (c *Conn) SetWriteDeadline(t time.Time) error { return c.SetDeadline(t) }

var ErrHorizon = errors.New("link: operation horizon reached")

// Script runs a single party against a pre-loaded remote byte string: the remote "writes" all of
// input, then closes. Output of the party is collected. No goroutines, no baton.
type Script struct {
	In     []byte
	rpos   int
	Out    []byte
	Closes int
	closed bool
	Seg    Seg
	Reads  int
	MaxOut int
	Reset  bool
}

func (s *Script) Read(p []byte) (int, error) {
	s.Reads++
	if s.closed {
		return 0, net.ErrClosed
	}
	if len(p) == 0 {
		return 0, nil
	}
	if s.rpos >= len(s.In) {
		if s.Reset {
			return 0, errReset
		}
		return 0, io.EOF
	}
	n := len(p)
	if a := len(s.In) - s.rpos; a < n {
		n = a
	}
	if lim := s.Seg.limit(s.rpos); lim < n {
		n = lim
	}
	copy(p, s.In[s.rpos:s.rpos+n])
	s.rpos += n
	return n, nil
}

func (s *Script) Write(p []byte) (int, error) {
	if s.closed {
		return 0, net.ErrClosed
	}
	if s.MaxOut == 0 || len(s.Out) < s.MaxOut {
		s.Out = append(s.Out, p...)
	}
	return len(p), nil
}

func (s *Script) Close() error                       { s.Closes++; s.closed = true; return nil }
func (s *Script) Consumed() int                      { return s.rpos }
func (s *Script) LocalAddr() net.Addr                { return addr("local") }
func (s *Script) RemoteAddr() net.Addr               { return addr("remote") }
func (s *Script) SetDeadline(t time.Time) error      { return nil }
func (s *Script) SetReadDeadline(t time.Time) error  { return nil }
func (s *Script) SetWriteDeadline(t time.Time) error { return nil }
