package props

import (
	"bytes"
	"fmt"
	"sort"
	"strings"

	"verif/core"
	"verif/link"
	"verif/sess"
)

func init() { Registry["C01"] = C01 }

type c01Scn struct {
	SetA, SetB     int
	Policy         int
	MasterB        bool
	MOTD           int
	GzipA, GzipB   bool
	BatchA, BatchB bool
	Seg            int
	CutDir, CutOff int // single read-segmentation cut (CutDir -1 = none)
}

var c01Segs = []int{0, 1, 2, 3, 5, 7, 64, 125, 126, 127, 128, 250, 256}

const c01NPolicies = 3 + 81 + 11 + 11 + 2

// c01Policy returns the answer for the pos-th (sorted MID order) of n offered messages.
func c01Policy(pattern, pos, n int) byte {
	sym := []byte{'+', '-', '='}
	switch {
	case pattern == 0:
		return '+'
	case pattern == 1:
		return '-'
	case pattern == 2:
		return '='
	case pattern < 3+81:
		d := pattern - 3
		if pos < 4 {
			for i := 0; i < pos; i++ {
				d /= 3
			}
			return sym[d%3]
		}
		return '+'
	case pattern < 3+81+11:
		if pos == pattern-(3+81) {
			return '-'
		}
		return '+'
	case pattern < 3+81+22:
		if pos == pattern-(3+81+11) {
			return '='
		}
		return '+'
	case pattern == 3+81+22:
		return sym[pos%3]
	default:
		return sym[(pos+1)%3]
	}
}

func c01Shape(idx int, deflt int) int {
	// component index 0 is the default shape; the others follow in order
	if idx == 0 {
		return deflt
	}
	if idx <= deflt {
		return idx - 1
	}
	return idx
}

func (s c01Scn) describe() string {
	return fmt.Sprintf("setA=%d setB=%d policy=%d masterB=%v motd=%d gzip=%v/%v batched=%v/%v seg=%d cut=%d@%d",
		s.SetA, s.SetB, s.Policy, s.MasterB, s.MOTD, s.GzipA, s.GzipB, s.BatchA, s.BatchB, c01Segs[s.Seg], s.CutDir, s.CutOff)
}

type c01Outcome struct {
	Class, Detail string
	Transfers     int
	Written       [2]int
	Key           string
}

func c01Run(sc c01Scn) c01Outcome {
	specs := [2][]sess.MsgSpec{msgSetShape(sc.SetA, "A"), msgSetShape(sc.SetB, "B")}
	calls := [2]string{"N0AAA", "N0BBB"}
	boxes := [2]*sess.Box{sess.NewBox("A"), sess.NewBox("B")}
	boxes[0].Batched, boxes[1].Batched = sc.BatchA, sc.BatchB
	want := [2]map[string][]byte{{}, {}} // queued bytes per side
	for i := 0; i < 2; i++ {
		for _, sp := range specs[i] {
			m := sp.Build(calls[i])
			boxes[i].AddOut(m)
			want[i][sp.MID] = sess.MsgBytes(m)
		}
	}
	// receiver policies (by sorted MID order of what the other side offers)
	ans := [2]map[string]byte{{}, {}} // ans[i][mid] = answer side i gives to mid offered by 1-i
	for i := 0; i < 2; i++ {
		mids := sess.SortedKeys(want[1-i])
		for pos, mid := range mids {
			a := c01Policy(sc.Policy, pos, len(mids))
			ans[i][mid] = a
			boxes[i].Policy[mid] = a
		}
	}
	var motd []string
	switch sc.MOTD {
	case 1:
		motd = []string{"Welcome to the test system"}
	case 2:
		motd = []string{"Welcome", "second line of text"}
	case 3: // bracketed tokens inside the text: only a whole line in brackets is a SID
		motd = []string{"Sysop is Joe [LA1B-10], other ports: see web page", "News [2016-03-01]"}
	}
	st := [2]sess.Station{
		{Call: calls[0], Locator: "JO39EQ", Master: !sc.MasterB, Gzip: sc.GzipA, Handler: boxes[0].Handler()},
		{Call: calls[1], Locator: "JP20QH", Master: sc.MasterB, Gzip: sc.GzipB, Handler: boxes[1].Handler()},
	}
	if sc.MasterB {
		st[1].MOTD = motd
	} else {
		st[0].MOTD = motd
	}
	plan := link.Plan{Cut: link.NoCut(), FailAfter: -1}
	for d := 0; d < 2; d++ {
		plan.Seg[d].Every = c01Segs[sc.Seg]
	}
	if sc.CutDir >= 0 {
		plan.Seg[sc.CutDir].Cuts = []int{sc.CutOff}
	}
	l, res := sess.RunPair(st[0], st[1], plan)
	var o c01Outcome
	o.Written = [2]int{len(l.Written(0)), len(l.Written(1))}
	fail := func(class, format string, a ...any) c01Outcome {
		o.Class, o.Detail = class, fmt.Sprintf(format, a...)
		return o
	}
	for i := 0; i < 2; i++ {
		if res[i].Panic != "" {
			return fail("panic|"+sess.PanicSiteOf(res[i].Stack), "station %d: %s", i, res[i].Panic)
		}
	}
	if l.Horizon {
		return fail("no-termination", "operation horizon reached")
	}
	if l.Deadlock {
		return fail("deadlock", "both stations waiting for input with nothing in flight (errors %v / %v)", res[0].Err, res[1].Err)
	}
	for i := 0; i < 2; i++ {
		if res[i].Err != nil {
			return fail("exchange-error", "station %d: %v (other: %v)", i, res[i].Err, res[1-i].Err)
		}
		if l.Closes[i] == 0 {
			return fail("conn-not-closed", "station %d never closed its connection", i)
		}
	}
	// per-message outcome
	for i := 0; i < 2; i++ { // sender i, receiver 1-i
		snd, rcv := boxes[i], boxes[1-i]
		var wantSent, wantRecv []string
		for _, sp := range specs[i] {
			mid := sp.MID
			nIn, nSentOK, nSentRej, nDef := 0, 0, 0, 0
			for _, c := range rcv.CallsOf("ProcessInbound") {
				if c.MID == mid {
					nIn++
					if !bytes.Equal(c.Bytes, want[i][mid]) {
						return fail("content-mismatch", "%s delivered with different bytes (%d vs %d queued)", mid, len(c.Bytes), len(want[i][mid]))
					}
				}
			}
			for _, c := range snd.CallsOf("SetSent") {
				if c.MID == mid {
					if c.Flag {
						nSentRej++
					} else {
						nSentOK++
					}
				}
			}
			for _, c := range snd.CallsOf("SetDeferred") {
				if c.MID == mid {
					nDef++
				}
			}
			_, pending := snd.Out[mid]
			switch ans[1-i][mid] {
			case '+':
				if nIn != 1 || nSentOK != 1 || nSentRej != 0 || nDef != 0 || pending {
					return fail("accepted-not-exactly-once", "%s: ProcessInbound x%d SetSent(ok) x%d SetSent(rejected) x%d SetDeferred x%d pending=%v", mid, nIn, nSentOK, nSentRej, nDef, pending)
				}
				wantSent = append(wantSent, mid)
				wantRecv = append(wantRecv, mid)
				o.Transfers++
			case '-':
				if nIn != 0 || nSentOK != 0 || nSentRej != 1 || nDef != 0 || pending {
					return fail("rejected-outcome", "%s: ProcessInbound x%d SetSent(ok) x%d SetSent(rejected) x%d SetDeferred x%d pending=%v", mid, nIn, nSentOK, nSentRej, nDef, pending)
				}
			case '=':
				if nIn != 0 || nSentOK != 0 || nSentRej != 0 || nDef < 1 || !pending {
					return fail("deferred-outcome", "%s: ProcessInbound x%d SetSent(ok) x%d SetSent(rejected) x%d SetDeferred x%d pending=%v", mid, nIn, nSentOK, nSentRej, nDef, pending)
				}
			}
		}
		// nothing foreign delivered
		for _, c := range rcv.CallsOf("ProcessInbound") {
			if _, ok := want[i][c.MID]; !ok {
				return fail("foreign-message", "%s delivered but never queued", c.MID)
			}
		}
		gotSent := append([]string{}, res[i].Stats.Sent...)
		gotRecv := append([]string{}, res[1-i].Stats.Received...)
		sort.Strings(gotSent)
		sort.Strings(gotRecv)
		sort.Strings(wantSent)
		sort.Strings(wantRecv)
		if strings.Join(gotSent, ",") != strings.Join(wantSent, ",") {
			return fail("stats-sent", "station %d Sent=%v want %v", i, gotSent, wantSent)
		}
		if strings.Join(gotRecv, ",") != strings.Join(wantRecv, ",") {
			return fail("stats-received", "station %d Received=%v want %v", 1-i, gotRecv, wantRecv)
		}
		// on the wire: one frame per accepted proposal, none for rejected/deferred; blocks of <= 5
		items := parseWire(l.Written(i))
		frames, inBlock := 0, 0
		for _, it := range items {
			switch {
			case it.Frame != nil:
				frames++
				if !it.Frame.Complete {
					return fail("wire-incomplete-frame", "station %d", i)
				}
			case strings.HasPrefix(it.Line, "FC ") || strings.HasPrefix(it.Line, "FD "):
				inBlock++
				if inBlock > 5 {
					return fail("wire-block-too-large", "station %d proposed more than five messages in a block", i)
				}
			case strings.HasPrefix(it.Line, "F>"):
				inBlock = 0
			}
		}
		if frames != len(wantSent) {
			return fail("wire-transfer-count", "station %d sent %d framed transfers, %d proposals were accepted", i, frames, len(wantSent))
		}
	}
	o.Key = fmt.Sprintf("%d/%d/%d", o.Transfers, o.Written[0], o.Written[1])
	return o
}

func c01Scenarios(dev int) []c01Scn {
	sizes := []int{nMsgShapes, nMsgShapes, c01NPolicies, 2, 4, 2, 2, 2, 2, len(c01Segs)}
	var out []c01Scn
	devProduct(sizes, dev, func(x []int) {
		out = append(out, c01Scn{SetA: c01Shape(x[0], 2), SetB: c01Shape(x[1], 1), Policy: x[2], MasterB: x[3] == 1, MOTD: x[4],
			GzipA: x[5] == 1, GzipB: x[6] == 1, BatchA: x[7] == 1, BatchB: x[8] == 1, Seg: x[9], CutDir: -1})
	})
	return out
}

func C01(args []string) {
	r := core.Begin("C01", "model_checking", args)
	if p := replayArg(args); p != "" {
		var f struct {
			Case c01Scn `json:"case"`
		}
		readJSON(p, &f)
		o := c01Run(f.Case)
		fmt.Printf("%s\nclass=%q %s\ntransfers=%d written=%v\n", f.Case.describe(), o.Class, o.Detail, o.Transfers, o.Written)
		return
	}
	dev := 2
	if r.Thorough() {
		dev = 3
	}
	scns := c01Scenarios(dev)
	nProduct := len(scns)
	// every single read-cut offset in both directions for base scenarios
	bases := []c01Scn{
		{SetA: 2, SetB: 1, CutDir: -1},
		{SetA: 9, SetB: 6, Policy: 3 + 81 + 22, MasterB: true, MOTD: 2, CutDir: -1},
		{SetA: 11 + 12, SetB: 11 + 4, BatchA: true, CutDir: -1},
	}
	if r.Thorough() {
		bases = append(bases, c01Scn{SetA: 7, SetB: 3, Policy: 3 + 81 + 23, GzipA: true, GzipB: true, CutDir: -1})
	}
	if !r.IsChild() || true {
		for _, b := range bases {
			o := c01Run(b)
			for d := 0; d < 2; d++ {
				for off := 1; off < o.Written[d]; off++ {
					s := b
					s.CutDir, s.CutOff = d, off
					scns = append(scns, s)
				}
			}
		}
	}
	r.Sharded(len(scns), func(i int) {
		sc := scns[i]
		o := c01Run(sc)
		r.Evals.Add(1)
		r.Add("conn_ops_bytes", int64(o.Written[0]+o.Written[1]))
		if o.Class != "" {
			r.Violation("C01|"+o.Class, sc.describe()+": "+o.Detail, sc)
			return
		}
		if o.Transfers > 0 {
			r.Nontrivial.Add(1)
			r.Distinct(fmt.Sprint(i))
		}
		r.Key(fmt.Sprintf("transfers=%d", o.Transfers))
		if i%1499 == 0 {
			r.Sample(map[string]any{"scenario": sc.describe(), "transfers": o.Transfers, "bytes": o.Written})
		}
		// determinism: replay a fixed subset and compare
		if i%97 == 0 {
			o2 := c01Run(sc)
			if o2.Key != o.Key || o2.Class != o.Class {
				fmt.Fprintf(os_stderr(), "NONDETERMINISM in %s: %q vs %q\n", sc.describe(), o.Key, o2.Key)
				panic("NONDETERMINISM")
			}
			r.Add("replayed_identically", 1)
		}
	}, core.ShardOpts{Watchdog: 120e9})
	add := r.Added()
	r.Finish(core.Coverage{
		"states":                        int64(r.DistinctN()),
		"transitions":                   r.Evals.Load(),
		"traces_validated_against_impl": r.Evals.Load(),
		"distinct_nontrivial":           int64(r.DistinctN()),
		"rule":                          "one evaluation = one complete two-station exchange of two real Sessions over the deterministic link; deviation-bounded product of 10 scenario components plus every single read-cut offset of the base scenarios; distinct non-trivial = distinct scenarios in which at least one message was transferred",
		"deviation_bound":               dev, "product_scenarios": nProduct, "single_cut_scenarios": len(scns) - nProduct,
		"bytes_on_wire": add["conn_ops_bytes"], "replayed_identically": add["replayed_identically"], "distinct_outcomes": len(r.Keys()),
	}, []string{
		"handlers implement the MBoxHandler contract (sent/rejected leave the outbox, deferred withheld for the session)",
		"stream segmentation is enumerated as read-limit plans (every k bytes; every single cut offset for the base scenarios); thread timing is irrelevant because only the baton holder runs",
		"callback order inside one block is canonicalised (Go map iteration in the Session)",
	})
}
