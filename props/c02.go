package props

import (
	"bytes"
	"fmt"
	"sort"
	"strings"
	"sync"

	"github.com/la5nta/wl2k-go/fbb"
	"github.com/la5nta/wl2k-go/mailbox"

	"verif/core"
	"verif/link"
	"verif/sess"
)

func init() { Registry["C02"] = C02 }

// ---- scenario, state, fault -------------------------------------------------------------------

type c02Scn struct {
	Name     string
	Specs    [2][]sess.MsgSpec
	MasterB  bool
	PreHeld  [2][]int // indices of the OTHER side's messages a side already holds (-> reject)
	DeferMID [2][]int // indices of the other side's messages a side defers by policy (stay pending)
	Batched  bool
	Thorough bool
	// DupOut: indices of a side's own messages that its mailbox offers twice while pending (two
	// copies in the outbox, as Radio Only gateways are known to do: the library handles the case)
	DupOut [2][]int
	// Dir: both stations use the real mailbox.DirHandler in a directory on tmpfs (messages addressed
	// to the peer, as the directory mailbox only offers those to a peer that names itself)
	Dir bool
}

func toPeer(specs []sess.MsgSpec, peer string) []sess.MsgSpec {
	for i := range specs {
		specs[i].To = peer
	}
	return specs
}

func c02Scenarios() []c02Scn {
	m := func(side string, n int) []sess.MsgSpec {
		var out []sess.MsgSpec
		for i := 0; i < n; i++ {
			out = append(out, sess.MsgSpec{MID: midFor(side, i)})
		}
		return out
	}
	big := func(side string, n int) []sess.MsgSpec {
		var out []sess.MsgSpec
		for i := 0; i < n; i++ {
			out = append(out, sess.MsgSpec{MID: midFor(side, i), Body: lcgText(1800, uint32(i+3))})
		}
		return out
	}
	att := func(side string, n int) []sess.MsgSpec {
		var out []sess.MsgSpec
		for i := 0; i < n; i++ {
			out = append(out, sess.MsgSpec{MID: midFor(side, i), Files: []sess.FileSpec{{Name: "f.bin", Data: lcgBytes(100+50*i, uint32(i), 0)}}})
		}
		return out
	}
	return []c02Scn{
		{Name: "A1-B0-Aslave", Specs: [2][]sess.MsgSpec{m("A", 1), nil}, MasterB: true},
		{Name: "A1-B0-Amaster", Specs: [2][]sess.MsgSpec{m("A", 1), nil}},
		{Name: "A2-B1", Specs: [2][]sess.MsgSpec{m("A", 2), m("B", 1)}, MasterB: true},
		{Name: "A3-B2-Amaster", Specs: [2][]sess.MsgSpec{m("A", 3), m("B", 2)}},
		{Name: "A6-B0-two-blocks", Specs: [2][]sess.MsgSpec{m("A", 6), nil}, MasterB: true},
		{Name: "A2-B1-one-preheld", Specs: [2][]sess.MsgSpec{m("A", 2), m("B", 1)}, MasterB: true, PreHeld: [2][]int{nil, {0}}},
		{Name: "A3-B1-one-deferred", Specs: [2][]sess.MsgSpec{m("A", 3), m("B", 1)}, MasterB: true, DeferMID: [2][]int{nil, {1}}},
		{Name: "A0-B2-Amaster", Specs: [2][]sess.MsgSpec{nil, m("B", 2)}},
		{Name: "A1big-B1big", Specs: [2][]sess.MsgSpec{big("A", 1), big("B", 1)}, MasterB: true},
		{Name: "A2att-B2att-batched", Specs: [2][]sess.MsgSpec{att("A", 2), att("B", 2)}, Batched: true},
		{Name: "A2-first-offered-twice", Specs: [2][]sess.MsgSpec{m("A", 2), nil}, MasterB: true, DupOut: [2][]int{{0}, nil}},
		{Name: "A1-offered-twice-B1-Amaster", Specs: [2][]sess.MsgSpec{m("A", 1), m("B", 1)}, DupOut: [2][]int{{0}, nil}},
		{Name: "dir-A1-B0-Aslave", Specs: [2][]sess.MsgSpec{toPeer(m("A", 1), "N0BBB"), nil}, MasterB: true, Dir: true},
		{Name: "dir-A2-B1", Specs: [2][]sess.MsgSpec{toPeer(m("A", 2), "N0BBB"), toPeer(m("B", 1), "N0AAA")}, MasterB: true, Dir: true},
		{Name: "dir-A2-B1-one-preheld-Amaster", Specs: [2][]sess.MsgSpec{toPeer(m("A", 2), "N0BBB"), toPeer(m("B", 1), "N0AAA")}, PreHeld: [2][]int{nil, {0}}, Dir: true},
		{Name: "dir-A3-B2-Amaster", Specs: [2][]sess.MsgSpec{toPeer(m("A", 3), "N0BBB"), toPeer(m("B", 2), "N0AAA")}, Dir: true, Thorough: true},
		{Name: "A2-B1-lower-case-mids", Specs: [2][]sess.MsgSpec{{{MID: "amsg0000001a"}, {MID: "AmSg0000002b"}}, {{MID: "bmsg0000001a"}}}, MasterB: true},
		{Name: "A7-B6", Specs: [2][]sess.MsgSpec{m("A", 7), m("B", 6)}, MasterB: true, Thorough: true},
		{Name: "A2big-B0-Amaster", Specs: [2][]sess.MsgSpec{big("A", 2), nil}, Thorough: true},
	}
}

// side state: for each of the side's own messages: 0 pending, 1 sent ok, 2 sent rejected; and which
// of the OTHER side's messages it holds.
type c02State struct {
	Own  [2][]byte
	Held [2][]bool
}

func (s c02State) key() string {
	var b strings.Builder
	for i := 0; i < 2; i++ {
		for _, v := range s.Own[i] {
			b.WriteByte('0' + v)
		}
		b.WriteByte('/')
		for _, v := range s.Held[i] {
			if v {
				b.WriteByte('h')
			} else {
				b.WriteByte('.')
			}
		}
		b.WriteByte('|')
	}
	return b.String()
}

type c02Fault struct {
	Kind      string `json:"kind"` // clean | cut | pair | storage
	Dir       int    `json:"dir"`
	K         int    `json:"k"`
	K2        int    `json:"k2"`
	Lost      bool   `json:"in_flight_lost"`
	FailAfter int    `json:"fail_after"`
	Reset     bool   `json:"reset"`
	Side      int    `json:"side"`
	J         int    `json:"j"`
	Window    int    `json:"window,omitempty"` // flow-controlled link: writes block while this many bytes are unread
}

type c02Case struct {
	Scenario string     `json:"scenario"`
	State    string     `json:"state"`
	Fault    c02Fault   `json:"fault"`
	Path     []c02Fault `json:"path_from_initial"`
	// Chain: the fault session (with one message of each side deferred by the other) and a clean session
	// after it run on the same two long-lived directory handlers, from the initial state
	Chain bool `json:"same_handlers_for_both_sessions,omitempty"`
}

type c02Ctx struct {
	sc     c02Scn
	calls  [2]string
	queued [2][][]byte // serialised messages per side
	msgs   [2][]*fbb.Message
}

func newC02Ctx(sc c02Scn) *c02Ctx {
	c := &c02Ctx{sc: sc, calls: [2]string{"N0AAA", "N0BBB"}}
	for i := 0; i < 2; i++ {
		for _, sp := range sc.Specs[i] {
			m := sp.Build(c.calls[i])
			c.msgs[i] = append(c.msgs[i], m)
			c.queued[i] = append(c.queued[i], sess.MsgBytes(m))
		}
	}
	return c
}

func (c *c02Ctx) initial() c02State {
	var s c02State
	for i := 0; i < 2; i++ {
		s.Own[i] = make([]byte, len(c.sc.Specs[i]))
		s.Held[i] = make([]bool, len(c.sc.Specs[1-i]))
		for _, k := range c.sc.PreHeld[i] {
			s.Held[i][k] = true
		}
	}
	return s
}

// dirBoxes builds the two directory mailboxes in state s with the handler's own operations.
func (c *c02Ctx) dirBoxes(s c02State) [2]c02Box {
	var bx [2]c02Box
	for i := 0; i < 2; i++ {
		b := newDirBox()
		for k, m := range c.msgs[i] {
			if err := b.h.AddOut(c.sc.Specs[i][k].Build(c.calls[i])); err != nil {
				core.Infra("AddOut: %v", err)
			}
			if s.Own[i][k] != 0 {
				b.h.SetSent(m.MID(), s.Own[i][k] == 2)
			}
		}
		for k, h := range s.Held[i] {
			if h {
				if err := b.h.ProcessInbound(c.sc.Specs[1-i][k].Build(c.calls[1-i])); err != nil {
					core.Infra("ProcessInbound: %v", err)
				}
			}
		}
		bx[i] = b
	}
	return bx
}

func (c *c02Ctx) boxes(s c02State) [2]c02Box {
	if c.sc.Dir {
		return c.dirBoxes(s)
	}
	var bx [2]c02Box
	for i := 0; i < 2; i++ {
		b := sess.NewBox([]string{"A", "B"}[i])
		b.Batched = c.sc.Batched
		for k, m := range c.msgs[i] {
			switch s.Own[i][k] {
			case 0:
				// a fresh message object per session, as a mailbox reloading from disk would give
				b.AddOut(c.sc.Specs[i][k].Build(c.calls[i]))
				for _, d := range c.sc.DupOut[i] {
					if d == k {
						b.AddOut(c.sc.Specs[i][k].Build(c.calls[i]))
					}
				}
			case 1:
				b.Sent[m.MID()] = false
			case 2:
				b.Sent[m.MID()] = true
			}
		}
		for k, h := range s.Held[i] {
			if h {
				b.In[c.msgs[1-i][k].MID()] = c.queued[1-i][k]
			}
		}
		for _, k := range c.sc.DeferMID[i] {
			b.Policy[c.msgs[1-i][k].MID()] = '='
		}
		bx[i] = memBox{b}
	}
	return bx
}

type c02Result struct {
	Next    c02State
	Class   string
	Detail  string
	Written [2]int
	NonTriv bool
}

func (c *c02Ctx) plan(f c02Fault) link.Plan {
	// the sessions of these scenarios need a few thousand link operations: a station that is still calling
	// Read/Write after 150 000 is spinning (reported as no-termination)
	p := link.Plan{Cut: link.NoCut(), FailAfter: -1, Coupled: true, MaxOps: 150000}
	switch f.Kind {
	case "cut":
		p.Cut[f.Dir] = f.K
		p.InFlightLost, p.FailAfter, p.Reset = f.Lost, f.FailAfter, f.Reset
		p.Window, p.PeerClosedWritesFail = f.Window, f.Window > 0
	case "pair":
		p.Cut[0], p.Cut[1] = f.K, f.K2
		p.FailAfter, p.Reset = f.FailAfter, f.Reset
	}
	return p
}

// step runs one session from state s under fault f and checks the per-transition invariants.
func (c *c02Ctx) step(s c02State, f c02Fault) c02Result {
	bx := c.boxes(s)
	defer bx[0].Close()
	defer bx[1].Close()
	return c.stepOn(bx, s, f)
}

// chain runs, from the initial state and on the same two directory handlers (an application that
// keeps its handler for the life of the process): a session under fault f in which each side defers
// the other's first message, then a clean session without deferrals - which must reach the goal.
func (c *c02Ctx) chain(f c02Fault) (class, detail string, nontriv bool) {
	s := c.initial()
	bx := c.boxes(s)
	defer bx[0].Close()
	defer bx[1].Close()
	for i := 0; i < 2; i++ {
		if len(c.msgs[1-i]) > 0 {
			bx[i].(*dirBox).deferMID = map[string]bool{c.msgs[1-i][0].MID(): true}
		}
	}
	r1 := c.stepOn(bx, s, f)
	if r1.Class != "" {
		return r1.Class, "first session (fault, deferrals): " + r1.Detail, false
	}
	for i := 0; i < 2; i++ {
		bx[i].(*dirBox).reset()
	}
	r2 := c.stepOn(bx, r1.Next, c02Fault{Kind: "clean"})
	if r2.Class != "" {
		return r2.Class, "clean session on the same handlers after " + r1.Next.key() + ": " + r2.Detail, r1.NonTriv
	}
	if ok, why := c.goalReached(r2.Next); !ok {
		return "goal-not-reached-with-long-lived-handler", "clean session on the same handlers after a session with deferrals (state " + r1.Next.key() + "): " + why, r1.NonTriv
	}
	return "", "", r1.NonTriv
}

// stepOn runs one session on the given mailboxes, which are in state s.
func (c *c02Ctx) stepOn(bx [2]c02Box, s c02State, f c02Fault) c02Result {
	if f.Kind == "storage" {
		bx[f.Side].FailAt(f.J)
	}
	st := [2]sess.Station{
		{Call: c.calls[0], Locator: "JO39EQ", Master: !c.sc.MasterB, Handler: bx[0].Handler()},
		{Call: c.calls[1], Locator: "JP20QH", Master: c.sc.MasterB, Handler: bx[1].Handler()},
	}
	l, res := sess.RunPair(st[0], st[1], c.plan(f))
	var r c02Result
	r.Written = [2]int{len(l.Written(0)), len(l.Written(1))}
	r.Next = c02State{}
	fail := func(class, format string, a ...any) c02Result {
		r.Class, r.Detail = class, fmt.Sprintf(format, a...)
		return r
	}
	for i := 0; i < 2; i++ {
		if res[i].Panic != "" {
			return fail("panic|"+sess.PanicSiteOf(res[i].Stack), "station %d: %s", i, res[i].Panic)
		}
	}
	if l.Horizon {
		return fail("no-termination", "operation horizon reached")
	}
	if l.Deadlock {
		return fail("exchange-does-not-return", "after the fault both stations wait for input forever (no deadline, nothing in flight); errors so far %v / %v", res[0].Err, res[1].Err)
	}
	// next state + invariants
	for i := 0; i < 2; i++ {
		r.Next.Own[i] = append([]byte{}, s.Own[i]...)
		r.Next.Held[i] = append([]bool{}, s.Held[i]...)
	}
	for i := 0; i < 2; i++ { // receiver i
		count := map[string]int{}
		for _, call := range bx[i].CallsOf("ProcessInbound") {
			k := c.index(1-i, call.MID)
			if k < 0 {
				return fail("foreign-message-delivered", "%s", call.MID)
			}
			if !bytes.Equal(call.Bytes, c.queued[1-i][k]) {
				return fail("content-mismatch", "%s handed to the handler with %d bytes, queued %d", call.MID, len(call.Bytes), len(c.queued[1-i][k]))
			}
			if call.Err == "" {
				count[call.MID]++
				if s.Held[i][k] || count[call.MID] > 1 {
					return fail("duplicate-delivery", "%s delivered although the receiver already held it", call.MID)
				}
				r.Next.Held[i][k] = true
				r.NonTriv = true
			}
		}
	}
	for i := 0; i < 2; i++ { // sender i
		for _, call := range bx[i].CallsOf("SetSent") {
			k := c.index(i, call.MID)
			if k < 0 {
				return fail("setsent-for-unknown-mid", "%s", call.MID)
			}
			if s.Own[i][k] != 0 && r.Next.Own[i][k] != 0 {
				return fail("setsent-twice", "%s", call.MID)
			}
			if !r.Next.Held[1-i][k] {
				if call.Flag {
					return fail("reported-already-received-but-peer-lacks-it", "%s", call.MID)
				}
				return fail("marked-sent-but-not-received", "%s reported sent although the peer's handler never completed ProcessInbound for it", call.MID)
			}
			if call.Flag {
				r.Next.Own[i][k] = 2
			} else {
				r.Next.Own[i][k] = 1
			}
		}
	}
	// the directory mailbox's ground truth: what is on disk agrees with what was reported
	for i := 0; i < 2; i++ {
		db, ok := bx[i].(*dirBox)
		if !ok {
			continue
		}
		if db.Misuse != "" {
			return fail("setsent-for-message-not-in-outbox", "%s", db.Misuse)
		}
		for k, m := range c.msgs[i] {
			pending, sent := db.has(mailbox.DIR_OUTBOX, m.MID()), db.has(mailbox.DIR_SENT, m.MID())
			if pending == sent || pending != (r.Next.Own[i][k] == 0) {
				return fail("directory-disagrees-with-reported-outcome", "%s: in out/: %v, in sent/: %v, reported state %d", m.MID(), pending, sent, r.Next.Own[i][k])
			}
		}
		for k, m := range c.msgs[1-i] {
			if held := db.has(mailbox.DIR_INBOX, m.MID()); held != r.Next.Held[i][k] {
				return fail("directory-disagrees-with-reported-outcome", "%s: in in/: %v, ProcessInbound completed: %v", m.MID(), held, r.Next.Held[i][k])
			}
		}
	}
	if f.Kind == "clean" {
		for i := 0; i < 2; i++ {
			if res[i].Err != nil {
				return fail("clean-session-error", "station %d: %v", i, res[i].Err)
			}
		}
	}
	return r
}

func (c *c02Ctx) index(side int, mid string) int {
	for k, m := range c.msgs[side] {
		if m.MID() == mid {
			return k
		}
	}
	return -1
}

// goal: after a clean session every non-deferred message is held by the peer and reported sent.
func (c *c02Ctx) goalReached(s c02State) (bool, string) {
	for i := 0; i < 2; i++ {
		deferred := map[int]bool{}
		for _, k := range c.sc.DeferMID[1-i] {
			deferred[k] = true
		}
		for k := range c.msgs[i] {
			if deferred[k] {
				if s.Own[i][k] != 0 || s.Held[1-i][k] {
					return false, fmt.Sprintf("deferred message %s did not stay pending", c.msgs[i][k].MID())
				}
				continue
			}
			if s.Own[i][k] == 0 || !s.Held[1-i][k] {
				return false, fmt.Sprintf("%s: sender state %d, peer holds it: %v", c.msgs[i][k].MID(), s.Own[i][k], s.Held[1-i][k])
			}
		}
	}
	return true, ""
}

func (c *c02Ctx) faults(s c02State, thorough, pairs bool) []c02Fault {
	// one clean run from this state gives the transcript lengths
	clean := c.step(s, c02Fault{Kind: "clean"})
	var fs []c02Fault
	type variant struct {
		lost   bool
		fail   int
		reset  bool
		window int
	}
	// the last variant of each tier runs on a flow-controlled link (a sender can still be writing
	// when the other side has noticed the failure and hung up)
	vs := []variant{{false, -1, false, 0}, {true, 0, true, 0}, {false, 0, false, 1}}
	if thorough {
		vs = []variant{{false, -1, false, 0}, {true, 0, true, 0}, {true, -1, false, 0}, {false, 0, false, 0}, {false, 1, true, 0}, {true, 2, false, 0}, {false, 0, false, 1}, {true, 0, true, 200}}
	}
	for d := 0; d < 2; d++ {
		for k := 0; k <= clean.Written[d]; k++ {
			for _, v := range vs {
				fs = append(fs, c02Fault{Kind: "cut", Dir: d, K: k, Lost: v.lost, FailAfter: v.fail, Reset: v.reset, Window: v.window})
			}
		}
	}
	// all cut pairs (kAB, kBA): from the scenario's initial state only, and only while the product
	// stays affordable (the single-cut plans above are enumerated from every reachable state)
	if thorough && pairs && clean.Written[0]*clean.Written[1] <= 400000 {
		for k := 0; k <= clean.Written[0]; k++ {
			for k2 := 0; k2 <= clean.Written[1]; k2++ {
				fs = append(fs, c02Fault{Kind: "pair", K: k, K2: k2, FailAfter: -1})
			}
		}
	}
	for side := 0; side < 2; side++ {
		for j := 1; j <= len(c.msgs[1-side]); j++ {
			fs = append(fs, c02Fault{Kind: "storage", Side: side, J: j})
			if c.sc.Dir {
				// the directory mailbox meets a genuine file-system failure (J < 0: see dirBox.FailAt)
				fs = append(fs, c02Fault{Kind: "storage", Side: side, J: -j})
			}
		}
	}
	return fs
}

// ---- explicit-state search --------------------------------------------------------------------

func C02(args []string) {
	r := core.Begin("C02", "model_checking", args)
	r.WatchProgress(watchPeriod()) // the code under test runs in this process: a call that never returns must end the check
	scns := c02Scenarios()
	if p := replayArg(args); p != "" {
		var f struct {
			Case c02Case `json:"case"`
		}
		readJSON(p, &f)
		for _, sc := range scns {
			if sc.Name != f.Case.Scenario {
				continue
			}
			ctx := newC02Ctx(sc)
			if f.Case.Chain {
				cl, d, _ := ctx.chain(f.Case.Fault)
				fmt.Printf("scenario %s, fault session with deferrals then clean session on the same handlers, fault %+v: class=%q %s\n", sc.Name, f.Case.Fault, cl, d)
				continue
			}
			s := ctx.initial()
			for _, pf := range f.Case.Path {
				s = ctx.step(s, pf).Next
			}
			res := ctx.step(s, f.Case.Fault)
			fmt.Printf("scenario %s state %s (replayed %s) fault %+v: class=%q %s\nnext=%s\n", sc.Name, f.Case.State, s.key(), f.Case.Fault, res.Class, res.Detail, res.Next.key())
		}
		return
	}
	var totalStates, totalTrans int64
	for _, sc := range scns {
		if sc.Thorough && !r.Thorough() {
			continue
		}
		ctx := newC02Ctx(sc)
		type node struct {
			s    c02State
			path []c02Fault
		}
		seen := map[string]bool{}
		init := ctx.initial()
		seen[init.key()] = true
		frontier := []node{{init, nil}}
		depth := 0
		for len(frontier) > 0 {
			var mu sync.Mutex
			var next []node
			for _, n := range frontier {
				// from every reachable state one clean session must reach the goal
				cr := ctx.step(n.s, c02Fault{Kind: "clean"})
				r.Evals.Add(1)
				if cr.Class != "" {
					r.Violation("C02|"+cr.Class, fmt.Sprintf("scenario %s, clean session from state %s: %s", sc.Name, n.s.key(), cr.Detail), c02Case{Scenario: sc.Name, State: n.s.key(), Fault: c02Fault{Kind: "clean"}, Path: n.path})
				} else if ok, why := ctx.goalReached(cr.Next); !ok {
					r.Violation("C02|goal-not-reached-by-clean-session", fmt.Sprintf("scenario %s, clean session from state %s: %s", sc.Name, n.s.key(), why), c02Case{Scenario: sc.Name, State: n.s.key(), Fault: c02Fault{Kind: "clean"}, Path: n.path})
				}
				fs := ctx.faults(n.s, r.Thorough(), len(n.path) == 0)
				core.ParallelFor(len(fs), func(i int) {
					res := ctx.step(n.s, fs[i])
					r.Evals.Add(1)
					if res.NonTriv {
						r.Nontrivial.Add(1)
					}
					if res.Class != "" {
						r.Violation("C02|"+res.Class, fmt.Sprintf("scenario %s state %s fault %+v: %s", sc.Name, n.s.key(), fs[i], res.Detail), c02Case{Scenario: sc.Name, State: n.s.key(), Fault: fs[i], Path: n.path})
						return
					}
					k := res.Next.key()
					mu.Lock()
					if !seen[k] {
						seen[k] = true
						next = append(next, node{res.Next, append(append([]c02Fault{}, n.path...), fs[i])})
					}
					mu.Unlock()
				})
			}
			sort.Slice(next, func(i, j int) bool { return next[i].s.key() < next[j].s.key() })
			frontier = next
			depth++
		}
		if sc.Dir {
			// long-lived handlers: what a handler remembers of one session must not leak into the next
			fs := append([]c02Fault{{Kind: "clean"}}, ctx.faults(init, r.Thorough(), false)...)
			core.ParallelFor(len(fs), func(i int) {
				cl, d, nt := ctx.chain(fs[i])
				r.Evals.Add(1)
				r.Add("long_lived_handler_chains", 1)
				if nt {
					r.Nontrivial.Add(1)
				}
				if cl != "" {
					r.Violation("C02|"+cl, fmt.Sprintf("scenario %s, fault %+v: %s", sc.Name, fs[i], d), c02Case{Scenario: sc.Name, State: init.key(), Fault: fs[i], Chain: true})
				}
			})
		}
		totalStates += int64(len(seen))
		r.Sample(map[string]any{"scenario": sc.Name, "reachable_states": len(seen), "bfs_depth": depth})
		r.Note("scenario %s: %d reachable mailbox states, BFS depth %d (fixpoint)", sc.Name, len(seen), depth)
	}
	totalTrans = r.Evals.Load()
	cov := core.Coverage{
		"states":                        totalStates,
		"transitions":                   totalTrans,
		"traces_validated_against_impl": totalTrans,
		"distinct_nontrivial":           r.Nontrivial.Load(),
		"rule":                          "states = canonical mailbox states (per message: pending/sent/rejected at the sender, held or not at the receiver) reached by BFS to a fixpoint; one transition = one complete two-station session from a state under one fault plan (every cut offset in each direction x loss/write-failure/reset variants; storage error at every inbound index; thorough: all cut pairs); non-trivial = the session delivered at least one message before or despite the fault (each (state, fault) pair is distinct)",
	}
	r.Finish(cov, []string{
		"a link failure is coupled: when one reader sees the failure the other direction dies too (in-flight bytes delivered or lost, writes failing at once or never: enumerated)",
		"in-memory reference handler, and the real mailbox.DirHandler on tmpfs in the dir-* scenarios",
	})
}
