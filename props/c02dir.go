package props

import (
	"fmt"
	"os"
	"path/filepath"
	"sync/atomic"

	"github.com/la5nta/wl2k-go/fbb"
	"github.com/la5nta/wl2k-go/mailbox"

	"verif/core"
	"verif/sandbox"
	"verif/sess"
)

// c02Box is what a C02 transition needs from a station's mailbox: the handler given to the Session,
// the calls it saw, a storage fault, and (for the directory mailbox) the ground truth on disk.
type c02Box interface {
	Handler() fbb.MBoxHandler
	CallsOf(op string) []sess.Call
	FailAt(j int)
	Close()
}

type memBox struct{ *sess.Box }

func (b memBox) FailAt(j int) { b.FailInboundAt = j }
func (b memBox) Close()       {}

// dirBox wraps the real mailbox.DirHandler (on tmpfs) and records the calls the Session makes.
// A SetSent for a message that is not in the outbox is recorded but not passed on (the real
// handler would end the process with log.Fatalf; the transition reports it instead).
type dirBox struct {
	root           string
	h              *mailbox.DirHandler
	calls          []sess.Call
	failAt, calls_ int
	failReal       bool // the fault is a genuine file-system failure inside the real handler, not an error of the wrapper
	Misuse         string
	deferMID       map[string]bool // proposals the station's operator puts off in this session
}

// reset forgets what was recorded and injected for the last session (the real handler stays).
func (b *dirBox) reset() {
	b.calls, b.calls_, b.failAt, b.failReal, b.Misuse, b.deferMID = nil, 0, 0, false, "", nil
}

var c02DirSeq atomic.Int64

func newDirBox() *dirBox {
	root := filepath.Join(sandbox.TmpBase(), fmt.Sprintf("c02dir-%08d-%08d", os.Getpid(), c02DirSeq.Add(1)))
	if sandbox.TmpBase() == "" {
		root = filepath.Join(os.TempDir(), filepath.Base(root))
	}
	if err := os.MkdirAll(root, 0o755); err != nil {
		core.Infra("%v", err)
	}
	h := mailbox.NewDirHandler(root, false)
	if err := h.Prepare(); err != nil {
		core.Infra("%v", err)
	}
	return &dirBox{root: root, h: h}
}

func (b *dirBox) Close() { os.RemoveAll(b.root) }
func (b *dirBox) FailAt(j int) {
	if j < 0 { // negative: the -j-th ProcessInbound meets a genuine file-system failure
		b.failAt, b.failReal = -j, true
		return
	}
	b.failAt = j
}
func (b *dirBox) Handler() fbb.MBoxHandler { return b }
func (b *dirBox) CallsOf(op string) []sess.Call {
	var out []sess.Call
	for _, c := range b.calls {
		if c.Op == op {
			out = append(out, c)
		}
	}
	return out
}

func (b *dirBox) has(folder, mid string) bool {
	_, err := os.Stat(filepath.Join(b.root, folder, mid+mailbox.Ext))
	return err == nil
}

func (b *dirBox) Prepare() error {
	b.calls = append(b.calls, sess.Call{Op: "Prepare"})
	return b.h.Prepare()
}

func (b *dirBox) GetOutbound(fw ...fbb.Address) []*fbb.Message {
	b.calls = append(b.calls, sess.Call{Op: "GetOutbound"})
	return b.h.GetOutbound(fw...)
}

func (b *dirBox) SetSent(mid string, rejected bool) {
	b.calls = append(b.calls, sess.Call{Op: "SetSent", MID: mid, Flag: rejected})
	if !b.has(mailbox.DIR_OUTBOX, mid) {
		b.Misuse = "SetSent for " + mid + ", which is not in the outbox"
		return
	}
	b.h.SetSent(mid, rejected)
}

func (b *dirBox) SetDeferred(mid string) {
	b.calls = append(b.calls, sess.Call{Op: "SetDeferred", MID: mid})
	b.h.SetDeferred(mid)
}

func (b *dirBox) ProcessInbound(msgs ...*fbb.Message) error {
	for _, m := range msgs {
		b.calls_++
		data, _ := m.Bytes()
		c := sess.Call{Op: "ProcessInbound", MID: m.MID(), Bytes: data}
		if b.failAt > 0 && b.calls_ == b.failAt && !b.failReal {
			c.Err = "storage error (injected)"
			b.calls = append(b.calls, c)
			return fmt.Errorf("storage error (injected)")
		}
		broken := b.failAt > 0 && b.calls_ == b.failAt
		in, bak := filepath.Join(b.root, "in"), filepath.Join(b.root, "in.broken")
		if broken {
			// the inbox directory is replaced by a regular file for the duration of this call: whatever
			// the handler tries to write there fails in the file system
			if os.Rename(in, bak) != nil || os.WriteFile(in, nil, 0o644) != nil {
				core.Infra("cannot break the inbox directory")
			}
		}
		err := b.h.ProcessInbound(m)
		if broken {
			os.Remove(in)
			if os.Rename(bak, in) != nil {
				core.Infra("cannot restore the inbox directory")
			}
		}
		if err != nil {
			c.Err = err.Error()
			b.calls = append(b.calls, c)
			return err
		}
		b.calls = append(b.calls, c)
	}
	return nil
}

func (b *dirBox) GetInboundAnswer(p fbb.Proposal) fbb.ProposalAnswer {
	a := b.h.GetInboundAnswer(p)
	if a == fbb.Accept && b.deferMID[p.MID()] {
		a = fbb.Defer
	}
	b.calls = append(b.calls, sess.Call{Op: "GetInboundAnswer", MID: p.MID(), Ans: byte(a)})
	return a
}
