package props

import (
	"bytes"
	"encoding/binary"
	"fmt"
	"runtime/debug"
	"runtime/metrics"
	"strconv"
	"strings"
	"sync"
	"time"

	"verif/core"
	"verif/link"
	"verif/ref/b2f"
	rl "verif/ref/lzhuf"
	"verif/sess"
)

func init() { Registry["C03"] = C03 }

// ---- base transcripts, recorded from the reference peer ---------------------------------------

type c03Base struct {
	Name      string
	LibMaster bool
	LibOut    int // messages the library side has queued
	Raw       []byte
	Items     []wireItem
	Frames    []int    // indices into Items of frames
	Props     []int    // indices into Items of the proposal lines the frames belong to (same order)
	FSLine    int      // index of the peer's FS answer line (-1)
	LibSizes  [][2]int // (uncompressed, compressed) size of each message the library proposed in the clean run
	Msgs      [][]byte // decoded message per frame
}

func c03LibStation(b *c03Base) (sess.Station, *sess.Box) {
	box := sess.NewBox("lib")
	for i := 0; i < b.LibOut; i++ {
		box.AddOut(sess.MsgSpec{MID: fmt.Sprintf("LIBOUT00000%d", i)}.Build("N0LIB"))
	}
	return sess.Station{Call: "N0LIB", Locator: "JO39EQ", Master: b.LibMaster, Handler: box}, box
}

func c03Bases() []*c03Base {
	var out []*c03Base
	peerMsgs := [][]sess.MsgSpec{
		nil,
		{{MID: "PEERMSG00001", Body: "hello from the peer\r\n"}},
		{{MID: "PEERMSG00001", Body: "hello from the peer\r\n"}, {MID: "PEERMSG00002", Body: "second message with an attachment\r\n", Files: []sess.FileSpec{{Name: "f.txt", Data: []byte("file content here")}}}},
	}
	for _, libMaster := range []bool{false, true} {
		for _, libOut := range []int{0, 1} {
			for pi, pm := range peerMsgs {
				b := &c03Base{Name: fmt.Sprintf("libMaster=%v/libOut=%d/peerMsgs=%d", libMaster, libOut, pi), LibMaster: libMaster, LibOut: libOut, FSLine: -1}
				st, _ := c03LibStation(b)
				truth := truthOf(pm, "N0PEER")
				var outbox []b2f.Msg
				for _, sp := range pm {
					outbox = append(outbox, truth[sp.MID])
				}
				peer := &b2f.Peer{Master: !libMaster, MyCall: "N0PEER", Other: "N0LIB", Outbox: outbox}
				l := link.New(link.Plan{Cut: link.NoCut(), FailAfter: -1})
				var res sess.Result
				l.Run(func(c *link.Conn) { res = sess.RunScriptConn(st, "N0PEER", c) }, func(c *link.Conn) { peer.Run(c) })
				if res.Err != nil || res.Panic != "" || !peer.Done {
					panic(fmt.Sprintf("C03 base %s did not complete cleanly: %v %s %s", b.Name, res.Err, res.Panic, peer.Fatal))
				}
				for _, it := range parseWire(l.Written(0)) {
					if f := strings.Fields(it.Line); it.Frame == nil && len(f) == 6 && f[0] == "FC" {
						u, _ := strconv.Atoi(f[3])
						c, _ := strconv.Atoi(f[4])
						b.LibSizes = append(b.LibSizes, [2]int{u, c})
					}
				}
				b.Raw = append([]byte{}, l.Written(1)...)
				b.Items = parseWire(b.Raw)
				var props []int
				for i, it := range b.Items {
					switch {
					case it.Frame != nil:
						b.Frames = append(b.Frames, i)
						r, err := rl.DecodeB2(it.Frame.Data)
						if err != nil {
							panic("base frame does not decode")
						}
						b.Msgs = append(b.Msgs, r.Data)
					case strings.HasPrefix(it.Line, "FC "):
						props = append(props, i)
					case strings.HasPrefix(it.Line, "FS "):
						b.FSLine = i
					}
				}
				b.Props = props
				if len(b.Props) != len(b.Frames) {
					panic("proposal/frame mismatch in base")
				}
				out = append(out, b)
			}
		}
	}
	return out
}

// rebuild serialises items, recomputing each proposal line's sizes from its (possibly changed)
// frame and every F> checksum, so that all outer layers stay sealed.
func (b *c03Base) rebuild(frameData map[int][]byte, usize map[int]int) []byte {
	return b.rebuildLines(frameData, usize, nil)
}

// rebuildLines additionally replaces whole lines (by item index) before the checksums are sealed.
func (b *c03Base) rebuildLines(frameData map[int][]byte, usize map[int]int, lines map[int]string) []byte {
	var out bytes.Buffer
	sum := 0
	for i, it := range b.Items {
		if it.Frame != nil {
			data := it.Frame.Data
			if d, ok := frameData[i]; ok {
				data = d
			}
			out.Write(c03Frame(it.Frame.Title, data, 250))
			continue
		}
		line := it.Line
		if strings.HasPrefix(line, "FC ") {
			for k, pi := range b.Props {
				if pi == i {
					fi := b.Frames[k]
					f := strings.Fields(line)
					if d, ok := frameData[fi]; ok {
						f[4] = strconv.Itoa(len(d))
					}
					if u, ok := usize[fi]; ok {
						f[3] = strconv.Itoa(u)
					}
					line = strings.Join(f, " ")
				}
			}
			if l, ok := lines[i]; ok {
				line = l
			}
			for _, c := range []byte(line) {
				sum += int(c)
			}
			sum += '\r'
		} else if strings.HasPrefix(line, "F> ") {
			line = fmt.Sprintf("F> %02X", (-sum)&0xff)
			sum = 0
		}
		out.WriteString(line)
		out.WriteByte('\r')
	}
	return out.Bytes()
}

func c03Frame(title string, data []byte, block int) []byte {
	var b bytes.Buffer
	b.WriteByte(b2f.SOH)
	b.WriteByte(byte(len(title) + 3))
	b.WriteString(title)
	b.WriteByte(0)
	b.WriteString("0")
	b.WriteByte(0)
	sum := 0
	for len(data) > 0 {
		n := block
		if n > len(data) {
			n = len(data)
		}
		b.WriteByte(b2f.STX)
		b.WriteByte(byte(n))
		b.Write(data[:n])
		for _, c := range data[:n] {
			sum += int(c)
		}
		data = data[n:]
	}
	b.WriteByte(b2f.EOT)
	b.WriteByte(byte(-sum & 0xff))
	return b.Bytes()
}

func sealB2(raw []byte) []byte { // raw = size + bit stream
	out := make([]byte, 2, 2+len(raw))
	binary.LittleEndian.PutUint16(out, rl.CRC16(raw))
	return append(out, raw...)
}

// ---- cases ------------------------------------------------------------------------------------

type c03Case struct {
	Base  int    `json:"base"`
	Layer string `json:"layer"`
	A     int    `json:"a"`
	B     int    `json:"b"`
	S     string `json:"s,omitempty"`
}

var c03Bytes = []byte{0x00, 0x0d, 0x0a, 0x20, 0x2a, 0x2d, 0x30, 0x39, 0x3b, 0x3e, 0x46, 0xff}
var c03Nums = []string{"-1", "0", "1", "999999", "1000000", "2147483647", "2147483648", "9223372036854775808", "100000000000000000000"}
var c03Lines = []string{"F", "F>", "F> ", "FS", "FS ", "FS !", "FS A", "FS +++++++", "FC", "FC EM", ";PQ", ";PQ:", ";FW", ";FW:", ";PM", "[", "[]", "[-]", "*", "***", "\x00", "\x00\x00", strings.Repeat("A", 300),
	"FS !999999", "FS A5000", "FS !-1", "FS +!", "FC EM X 1 1 0", "FC EM MID -1 -1 0", "FD EM M 10 10 0", "FA P A B C 1_A 10", "FQ", "FF", "F> 00", ";PM: a", "; x", "*** error", "[x-B2F$]", "[x-F$]", ">",
	// well-formed protocol lines at places where they are not expected (appended: indices above are in replay files)
	";PM: N0LIB PMMSGID00001 123 N0PEER@winlink.org a pending message", ";PM: N0LIB PMMSGID00001 123 N0PEER@winlink.org", ";FW: N0PEER", ";FW: N0PEER N0AUX|12345678", ";PQ: 12345678",
	"; N0LIB DE N0PEER (AA00aa)", "FC EM NEWMSGID0001 100 90 0", "FS +", "FS -", "FS =", "FS +-=", "FS !10", "FS A10", "FS H", "[WL2K-5.0-B2FWIHJM$]", "N0PEER>", "CMS>"}

// floods of lines a session skips
var c03Floods = []struct {
	s string
	n int
}{{"\r", 500000}, {"\r\n", 300000}, {"; c\r", 200000}, {" \r", 300000}}

// values for the numeric fields of a proposal line (block checksum re-sealed)
var c03PropNums = []string{"-1", "0", "00", "1", "", "x", "0x12C", "+-1", "999999", "1000000", "2147483647", "2147483648", "1073741824", "9223372036854775807", "9223372036854775808", "100000000000000000000"}

var c03MsgNums = []string{"-1", "0", "+1", "-d1", "10000000000", "3000000000", "2147483647", "99999999999999999999"}

// c03Offsets are the offsets a peer may ask for, around the two sizes of a proposal.
func c03Offsets(sz [2]int) []int {
	u, c := sz[0], sz[1]
	return []int{0, 1, 2, 5, 6, 7, c / 2, c - 2, c - 1, c, c + 1, c + 2, (c + u) / 2, u - 1, u, u + 1, u + 2, 2 * u}
}

type digitRun struct{ s, e int }

func (b *c03Base) digitRuns() []digitRun {
	var out []digitRun
	for _, it := range b.Items {
		if it.Frame != nil {
			continue
		}
		i := it.Off
		for i < it.End {
			if b.Raw[i] >= '0' && b.Raw[i] <= '9' {
				j := i
				for j < it.End && b.Raw[j] >= '0' && b.Raw[j] <= '9' {
					j++
				}
				out = append(out, digitRun{i, j})
				i = j
			} else {
				i++
			}
		}
	}
	return out
}

// positions of interest for the short-string family
func (b *c03Base) positions() []int {
	pos := []int{0}
	seenSID := false
	for _, it := range b.Items {
		if it.Frame == nil && strings.HasPrefix(it.Line, "[") && !seenSID {
			seenSID = true
			pos = append(pos, it.End)
		}
		if it.Frame == nil && (strings.HasPrefix(it.Line, "; ")) {
			pos = append(pos, it.End)
		}
	}
	if b.FSLine >= 0 {
		pos = append(pos, b.Items[b.FSLine].Off)
	}
	if len(b.Frames) > 0 {
		pos = append(pos, b.Items[b.Frames[0]].Off, b.Items[b.Frames[0]].Off+2)
	}
	return pos
}

func shortStrings(maxLen int) []string {
	out := []string{}
	for n := 1; n <= maxLen; n++ {
		for i := 0; i < countStrings(len(c03Bytes), n); i++ {
			out = append(out, string(nthString(c03Bytes, n, i)))
		}
	}
	return out
}

func c03Cases(bases []*c03Base, thorough bool) []c03Case {
	var cs []c03Case
	shorts := shortStrings(3)
	for bi, b := range bases {
		// layer 1: every offset x menu
		for off := 0; off <= len(b.Raw); off++ {
			cs = append(cs, c03Case{bi, "trunc", off, 0, ""})
			if off == len(b.Raw) {
				break
			}
			cs = append(cs, c03Case{bi, "del", off, 0, ""})
			if thorough && b.Items[0].Frame == nil {
				for v := 0; v < 256; v++ {
					cs = append(cs, c03Case{bi, "sub", off, v, ""})
				}
			} else {
				for _, v := range c03Bytes {
					cs = append(cs, c03Case{bi, "sub", off, int(v), ""})
				}
				cs = append(cs, c03Case{bi, "sub", off, int(b.Raw[off] ^ 1), ""}, c03Case{bi, "sub", off, int(b.Raw[off] ^ 0x80), ""})
			}
			for _, v := range c03Bytes {
				cs = append(cs, c03Case{bi, "ins", off, int(v), ""})
			}
		}
		// numeric tokens
		for ri := range b.digitRuns() {
			for ni := range c03Nums {
				cs = append(cs, c03Case{bi, "num", ri, ni, ""})
			}
		}
		// lines
		li := 0
		for _, it := range b.Items {
			if it.Frame != nil {
				continue
			}
			cs = append(cs, c03Case{bi, "line-drop", li, 0, ""}, c03Case{bi, "line-dup", li, 0, ""})
			for k := range c03Lines {
				cs = append(cs, c03Case{bi, "line-repl", li, k, ""}, c03Case{bi, "line-ins", li, k, ""})
			}
			li++
		}
		// the peer accepts the library's proposal at an offset: boundaries of the compressed and of the
		// uncompressed size (the offset indexes the compressed data)
		if b.FSLine >= 0 && len(b.LibSizes) > 0 {
			for k := range c03Offsets(b.LibSizes[0]) {
				cs = append(cs, c03Case{bi, "fs-offset", k, 0, ""}, c03Case{bi, "fs-offset", k, 1, ""})
			}
		}
		// proposal-line fields with the block checksum re-sealed, so that the transfer still happens
		for k := range b.Props {
			for field := 1; field <= 5; field++ {
				for ni := range c03PropNums {
					cs = append(cs, c03Case{bi, "prop-field-resealed", k, field*100 + ni, ""})
				}
			}
		}
		// layer 2/3: inside the compressed payload, outer layers re-sealed
		for fi := range b.Frames {
			data := b.Items[b.Frames[fi]].Frame.Data
			for off := 0; off < len(data); off++ {
				for _, op := range []int{0, 1, 2, 3, 4, 5} { // ^1 ^0x80 =00 =ff delete truncate
					cs = append(cs, c03Case{bi, "payload", fi, off*8 + op, ""})
					if off >= 6 {
						cs = append(cs, c03Case{bi, "payload-crc-resealed", fi, off*8 + op, ""})
					}
				}
			}
			for k := 0; k < 12; k++ {
				cs = append(cs, c03Case{bi, "lzsize", fi, k, ""})
			}
			// layer 4: the decompressed message, everything re-sealed
			msg := b.Msgs[fi]
			hdrEnd := bytes.Index(msg, []byte("\r\n\r\n"))
			for off := 0; off <= len(msg); off++ {
				cs = append(cs, c03Case{bi, "msg-trunc", fi, off, ""})
				if off < hdrEnd+4 {
					for op := 0; op < 6; op++ { // delete, =00, =ff, =\n, =':', =' '
						cs = append(cs, c03Case{bi, "msg-hdr", fi, off*8 + op, ""})
					}
				}
			}
			for k := range c03MsgNums {
				cs = append(cs, c03Case{bi, "msg-body-size", fi, k, ""}, c03Case{bi, "msg-file-size", fi, k, ""})
			}
			for k := 0; k < 8; k++ {
				cs = append(cs, c03Case{bi, "msg-shape", fi, k, ""})
			}
		}
		// layer 6: a flood of empty or comment lines in front of a protocol line - whatever the line reader
		// skips it must skip in constant stack (workers run with a 8 MiB stack limit)
		if thorough || bi%3 == 0 {
			for ii, it := range b.Items {
				if it.Frame == nil {
					for k := range c03Floods {
						cs = append(cs, c03Case{bi, "line-flood", ii, k, ""})
					}
				}
			}
		}
		// layer 5: all short strings at the protocol positions (a subset of bases in the quick tier)
		if thorough || bi%3 == 2 || bi == 0 {
			for pi := range b.positions() {
				for si := range shorts {
					cs = append(cs, c03Case{bi, "short-ins", pi, si, ""}, c03Case{bi, "short-rest", pi, si, ""})
				}
			}
		}
	}
	return cs
}

func replaceHeaderNum(msg []byte, key string, how string) []byte {
	lines := strings.Split(string(msg), "\r\n")
	for i, ln := range lines {
		if ln == "" {
			break
		}
		if strings.HasPrefix(ln, key+": ") {
			rest := ln[len(key)+2:]
			f := strings.SplitN(rest, " ", 2)
			n, _ := strconv.Atoi(f[0])
			switch how {
			case "+1":
				f[0] = strconv.Itoa(n + 1)
			case "-d1":
				f[0] = strconv.Itoa(n - 1)
			default:
				f[0] = how
			}
			lines[i] = key + ": " + strings.Join(f, " ")
			break
		}
	}
	return []byte(strings.Join(lines, "\r\n"))
}

// materialise returns the remote byte string of a case.
func (c c03Case) materialise(bases []*c03Base, shorts []string) []byte {
	b := bases[c.Base]
	raw := b.Raw
	cat := func(parts ...[]byte) []byte { return bytes.Join(parts, nil) }
	lineItems := func() []int {
		var idx []int
		for i, it := range b.Items {
			if it.Frame == nil {
				idx = append(idx, i)
			}
		}
		return idx
	}
	switch c.Layer {
	case "trunc":
		return raw[:c.A]
	case "del":
		return cat(raw[:c.A], raw[c.A+1:])
	case "sub":
		return cat(raw[:c.A], []byte{byte(c.B)}, raw[c.A+1:])
	case "ins":
		return cat(raw[:c.A], []byte{byte(c.B)}, raw[c.A:])
	case "num":
		r := b.digitRuns()[c.A]
		return cat(raw[:r.s], []byte(c03Nums[c.B]), raw[r.e:])
	case "line-drop", "line-dup", "line-repl", "line-ins":
		it := b.Items[lineItems()[c.A]]
		switch c.Layer {
		case "line-drop":
			return cat(raw[:it.Off], raw[it.End:])
		case "line-dup":
			return cat(raw[:it.End], raw[it.Off:it.End], raw[it.End:])
		case "line-repl":
			return cat(raw[:it.Off], []byte(c03Lines[c.B]+"\r"), raw[it.End:])
		default:
			return cat(raw[:it.Off], []byte(c03Lines[c.B]+"\r"), raw[it.Off:])
		}
	case "fs-offset":
		line := fmt.Sprintf("FS %c%d", "!A"[c.B], c03Offsets(b.LibSizes[0])[c.A])
		it := b.Items[b.FSLine]
		return cat(raw[:it.Off], []byte(line+"\r"), raw[it.End:])
	case "prop-field-resealed":
		pi := b.Props[c.A]
		f := strings.Fields(b.Items[pi].Line)
		field, ni := c.B/100, c.B%100
		if field < len(f) {
			f[field] = c03PropNums[ni]
		}
		return b.rebuildLines(nil, nil, map[int]string{pi: strings.Join(f, " ")})
	case "payload", "payload-crc-resealed":
		fi := b.Frames[c.A]
		data := append([]byte{}, b.Items[fi].Frame.Data...)
		off, op := c.B/8, c.B%8
		switch op {
		case 0:
			data[off] ^= 1
		case 1:
			data[off] ^= 0x80
		case 2:
			data[off] = 0
		case 3:
			data[off] = 0xff
		case 4:
			data = append(data[:off], data[off+1:]...)
		case 5:
			data = data[:off]
		}
		if c.Layer == "payload-crc-resealed" && len(data) >= 6 {
			data = sealB2(data[2:])
		}
		return b.rebuild(map[int][]byte{fi: data}, nil)
	case "lzsize":
		fi := b.Frames[c.A]
		data := append([]byte{}, b.Items[fi].Frame.Data...)
		size := int32(binary.LittleEndian.Uint32(data[2:]))
		v := []int32{-1, 0, size - 1, size + 1, 1<<31 - 1, -1 << 31, size - 2, size / 2, size + 60, 1, size * 2, 65536}[c.B]
		binary.LittleEndian.PutUint32(data[2:], uint32(v))
		return b.rebuild(map[int][]byte{fi: sealB2(data[2:])}, nil)
	case "msg-trunc", "msg-hdr", "msg-body-size", "msg-file-size", "msg-shape":
		fi := b.Frames[c.A]
		msg := append([]byte{}, b.Msgs[c.A]...)
		switch c.Layer {
		case "msg-trunc":
			msg = msg[:c.B]
		case "msg-hdr":
			off, op := c.B/8, c.B%8
			if op == 0 {
				msg = append(msg[:off], msg[off+1:]...)
			} else {
				msg[off] = []byte{0, 0, 0xff, '\n', ':', ' '}[op]
			}
		case "msg-body-size":
			msg = replaceHeaderNum(msg, "Body", c03MsgNums[c.B])
		case "msg-file-size":
			msg = replaceHeaderNum(msg, "File", c03MsgNums[c.B])
		case "msg-shape":
			s := string(msg)
			switch c.B {
			case 0: // missing blank line
				s = strings.Replace(s, "\r\n\r\n", "\r\n", 1)
			case 1: // no Date
				s = dropHeader(s, "Date")
			case 2: // 10^5-byte header line
				s = strings.Replace(s, "\r\n", "\r\nX-Long: "+strings.Repeat("x", 100000)+"\r\n", 1)
			case 3: // no Mid
				s = dropHeader(s, "Mid")
			case 4: // bare LF line ends
				s = strings.ReplaceAll(s, "\r\n", "\n")
			case 5: // empty message
				s = ""
			case 6: // header only, no terminator
				s = s[:strings.Index(s, "\r\n\r\n")]
			case 7: // Date garbage
				s = strings.Replace(s, "Date: ", "Date: not a date ", 1)
			}
			msg = []byte(s)
		}
		return b.rebuild(map[int][]byte{fi: rl.EncodeB2(msg)}, map[int]int{fi: len(msg)})
	case "line-flood":
		p := b.Items[c.A].Off
		return cat(raw[:p], bytes.Repeat([]byte(c03Floods[c.B].s), c03Floods[c.B].n), raw[p:])
	case "short-ins", "short-rest":
		p := b.positions()[c.A]
		if c.Layer == "short-ins" {
			return cat(raw[:p], []byte(shorts[c.B]), raw[p:])
		}
		return cat(raw[:p], []byte(shorts[c.B]))
	}
	panic("unknown layer " + c.Layer)
}

func dropHeader(s, key string) string {
	lines := strings.Split(s, "\r\n")
	for i, ln := range lines {
		if strings.HasPrefix(ln, key+": ") {
			return strings.Join(append(lines[:i:i], lines[i+1:]...), "\r\n")
		}
		if ln == "" {
			break
		}
	}
	return s
}

var allocSample = []metrics.Sample{{Name: "/gc/heap/allocs:bytes"}}

func allocBytes() uint64 {
	metrics.Read(allocSample)
	return allocSample[0].Value.Uint64()
}

// c03Judge runs one remote byte string; returns class, detail, consumed bytes.
func c03Judge(b *c03Base, in []byte) (string, string, int) {
	st, _ := c03LibStation(b)
	sc := &link.Script{In: in, MaxOut: 1 << 20}
	a0 := allocBytes()
	res := sess.RunScript(st, "N0PEER", sc)
	alloc := allocBytes() - a0
	switch {
	case res.Panic != "":
		return "panic|" + sess.PanicSiteOf(res.Stack), res.Panic, sc.Consumed()
	case !res.Returned:
		return "no-return", "", sc.Consumed()
	case alloc > 64<<20+4096*uint64(len(in)):
		return "allocation-out-of-proportion", fmt.Sprintf("%d bytes allocated for %d bytes received", alloc, len(in)), sc.Consumed()
	case sc.Closes == 0:
		return "conn-not-closed", fmt.Sprintf("Exchange returned %v without closing the connection", res.Err), sc.Consumed()
	}
	return "", "", sc.Consumed()
}

func C03(args []string) {
	r := core.Begin("C03", "fault_enumeration", args)
	debug.SetMaxStack(8 << 20) // no code path of the library needs a deep stack: recursion per received line or byte must not pass
	bases := c03Bases()
	shorts := shortStrings(3)
	if p := replayArg(args); p != "" {
		var f struct {
			Case c03Case `json:"case"`
		}
		readJSON(p, &f)
		in := f.Case.materialise(bases, shorts)
		fmt.Printf("base %s, case %+v, remote bytes (%d): %q\n", bases[f.Case.Base].Name, f.Case, len(in), core.Trunc(string(in), 600))
		c, d, n := c03Judge(bases[f.Case.Base], in)
		fmt.Printf("class=%q %s (consumed %d)\n", c, d, n)
		return
	}
	cases := c03Cases(bases, r.Thorough())
	opts := core.ShardOpts{Watchdog: 20 * time.Second, MemLimit: 6 << 30}
	var hangMu sync.Mutex
	confirmedHang := map[string]bool{}
	opts.ExtraArgsNow = func() []string {
		hangMu.Lock()
		defer hangMu.Unlock()
		var ls []string
		for l := range confirmedHang {
			ls = append(ls, l)
		}
		if len(ls) == 0 {
			return nil
		}
		return []string{"--skip-layers", strings.Join(ls, ",")}
	}
	skip := map[string]bool{}
	for i, a := range args {
		if a == "--skip-layers" && i+1 < len(args) {
			for _, l := range strings.Split(args[i+1], ",") {
				skip[l] = true
			}
		}
	}
	opts.WatchdogNow = func() time.Duration {
		hangMu.Lock()
		defer hangMu.Unlock()
		if len(confirmedHang) > 0 {
			return 5 * time.Second // a hang is already established; further stalls only add to its count
		}
		return 20 * time.Second
	}
	opts.OnDeath = func(i int, kind, tail string) {
		c := cases[i]
		if kind == "stall" {
			hangMu.Lock()
			known := confirmedHang[c.Layer]
			hangMu.Unlock()
			if known {
				r.Violation("C03|hang|"+c.Layer, fmt.Sprintf("base %s case %+v: Exchange does not return (CPU spin)", bases[c.Base].Name, c), c)
				return
			}
			// believe a hang only if the case alone stalls again, three times, with a wide margin
			for k := 0; k < 3; k++ {
				if died, k2, _ := r.RunOne(i, 30*time.Second, core.ShardOpts{MemLimit: opts.MemLimit}); !died || k2 != "stall" {
					r.Note("case %d stalled once under load but completed alone; not reported", i)
					return
				}
			}
			hangMu.Lock()
			if !confirmedHang[c.Layer] {
				r.Cap("layer %s abandoned after a confirmed hang: its remaining cases are skipped in restarted workers", c.Layer)
			}
			confirmedHang[c.Layer] = true
			hangMu.Unlock()
			r.Violation("C03|hang|"+c.Layer, fmt.Sprintf("base %s case %+v: Exchange does not return (CPU spin)", bases[c.Base].Name, c), c)
			return
		}
		site := core.SiteFromTrace(tail)
		what := "process died"
		switch {
		case strings.Contains(tail, "out of memory") || strings.Contains(tail, "cannot allocate"):
			r.Violation("C03|out-of-memory|"+site, fmt.Sprintf("base %s case %+v: %s", bases[c.Base].Name, c, core.Trunc(tail, 300)), c)
			return
		case strings.Contains(tail, "panic:"):
			what = "panic outside the Exchange goroutine"
		}
		if site == "?" {
			core.Infra("worker died outside the code under test (case %d %+v):\n%s", i, c, core.Trunc(tail, 1500))
		}
		r.Violation("C03|process-killed|"+site, fmt.Sprintf("base %s case %+v: %s: %s", bases[c.Base].Name, c, what, core.Trunc(tail, 300)), c)
	}
	r.Sharded(len(cases), func(i int) {
		c := cases[i]
		if skip[c.Layer] {
			r.Add("skipped_after_confirmed_hang", 1)
			return
		}
		in := c.materialise(bases, shorts)
		class, detail, consumed := c03Judge(bases[c.Base], in)
		r.Evals.Add(1)
		r.Add("layer_"+c.Layer, 1)
		if consumed > 0 {
			r.Nontrivial.Add(1)
		}
		if class != "" {
			r.Violation("C03|"+class, fmt.Sprintf("base %s case %+v: %s", bases[c.Base].Name, c, detail), c)
		}
		if i%30011 == 0 {
			r.Sample(map[string]any{"base": bases[c.Base].Name, "case": c, "remote_bytes": core.Trunc(fmt.Sprintf("%q", in), 200)})
		}
	}, opts)
	add := r.Added()
	cov := core.Coverage{
		"evaluations":         r.Evals.Load(),
		"distinct_nontrivial": r.Nontrivial.Load(),
		"rule":                "one evaluation = one real Session run against one scripted remote byte string; cases are distinct (base transcript, layer, position, mutation) tuples; non-trivial = the session consumed at least one byte of the mutated transcript",
		"base_transcripts":    len(bases),
	}
	for k, v := range add {
		if strings.HasPrefix(k, "layer_") {
			cov[k] = v
		}
	}
	r.Finish(cov, []string{
		"a CPU spin is reported only after the case stalled a 20 s watchdog and then three 30 s solo re-runs (cases normally take well under a millisecond)",
		"stack guard: workers run with a 8 MiB goroutine stack limit (the line-flood layer sends up to 500 000 lines the session skips)",
		"allocation guard: bytes allocated during the case <= 64 MiB + 4096 x bytes received; workers run under a 6 GiB address-space limit",
	})
}
