package props

import (
	"bytes"
	"fmt"
	"strconv"
	"strings"

	"verif/core"
	"verif/link"
	"verif/ref/b2f"
	rl "verif/ref/lzhuf"
	"verif/sess"
)

func init() { Registry["C04"] = C04 }

type c04Case struct {
	Msg   int         `json:"message"`
	With  []int       `json:"block_with,omitempty"` // other messages proposed in the same block (indices), in queue order
	Pos   int         `json:"position_in_block"`    // which transfer of the block is damaged (size order)
	Kind  string      `json:"kind"`
	Edits []link.Edit `json:"edits"`
}

func c04Messages() []sess.MsgSpec {
	return []sess.MsgSpec{
		{MID: "C04TEXT00001", Body: "The quick brown fox jumps over the lazy dog. The quick brown fox again.\r\n"},
		{MID: "C04BINARY002", Body: "see attachment\r\n", Files: []sess.FileSpec{{Name: "rnd.bin", Data: lcgBytes(300, 4242, 0)}}},
		{MID: "C04MULTI0003", Body: lcgText(1500, 11)},
		{MID: "C04ATTACH004", Body: "two files\r\n", Files: []sess.FileSpec{{Name: "a.txt", Data: []byte("aaaaaaaaaaaaaaaaaaaaaaaaaaaaaaaaaaaaaaaaaaaaaaaaaaaaaaaaaaaaaaaaaaaaaaaa")}, {Name: "z.bin", Data: make([]byte, 64)}}},
		{MID: "C04LATIN0005", Subject: "Blåbær", Body: "æøå ÆØÅ ÿ\r\nsecond line\r\n"},
		{MID: "C04EXACT0006", Body: bodyForCompressedSize("C04EXACT0006", 250)},
		// index 6, used by the "large" family only: more than 64 KiB uncompressed, about a hundred blocks
		{MID: "C04LARGE0007", Body: lcgText(70000, 23)},
	}
}

const c04Large = 6

type c04Base struct {
	spec       sess.MsgSpec
	others     []sess.MsgSpec
	queued     []byte
	wire       []byte // everything the sender wrote in the clean run
	start, end int    // SOH..EOT(+checksum) range in wire
	usize      int
	csize      int
	dataOffs   []int // offsets (in wire) of payload data bytes
}

func c04Prepare(spec sess.MsgSpec, others ...sess.MsgSpec) c04Base {
	b := c04Base{spec: spec, others: others}
	l, res, _, q := c04Exchange(spec, nil, 0, others...)
	if res[0].Err != nil || res[1].Err != nil {
		panic(fmt.Sprintf("clean C04 base exchange failed: %v / %v", res[0].Err, res[1].Err))
	}
	b.queued = q
	b.wire = append([]byte{}, l.Written(0)...)
	var order []string
	fi := 0
	for _, it := range parseWire(b.wire) {
		if strings.HasPrefix(it.Line, "FC ") {
			f := strings.Fields(it.Line)
			order = append(order, f[2])
			if f[2] == spec.MID {
				b.usize, _ = strconv.Atoi(f[3])
				b.csize, _ = strconv.Atoi(f[4])
			}
		}
		if it.Frame != nil {
			fi++
			if order[fi-1] != spec.MID {
				continue
			}
			b.start, b.end = it.Off, it.End
			// data byte offsets
			i := it.Off + 2 + it.Frame.HeaderLen
			for _, n := range it.Frame.Blocks {
				for k := 0; k < n; k++ {
					b.dataOffs = append(b.dataOffs, i+2+k)
				}
				i += 2 + n
			}
		}
	}
	if b.end == 0 {
		panic("no transfer found in the clean run")
	}
	return b
}

// c04Exchange runs sender (party 0, slave, speaks first) -> receiver with the given edits.
func c04Exchange(spec sess.MsgSpec, edits []link.Edit, window int, others ...sess.MsgSpec) (*link.Link, [2]sess.Result, [2]*sess.Box, []byte) {
	snd, rcv := sess.NewBox("snd"), sess.NewBox("rcv")
	m := spec.Build("N0SND")
	snd.AddOut(m)
	for _, o := range others {
		snd.AddOut(o.Build("N0SND"))
	}
	// window > 0: a flow-controlled link (the sender is still writing a later message of the block when
	// the receiver gives up and hangs up: its Write fails)
	plan := link.Plan{Cut: link.NoCut(), FailAfter: -1, Window: window, PeerClosedWritesFail: window > 0}
	plan.Edits[0] = edits
	l, res := sess.RunPair(sess.Station{Call: "N0SND", Locator: "AA00aa", Handler: snd}, sess.Station{Call: "N0RCV", Locator: "BB11bb", Master: true, Handler: rcv}, plan)
	return l, res, [2]*sess.Box{snd, rcv}, sess.MsgBytes(m)
}

// refAccepts reports whether the independent reference accepts the altered SOH..EOT range as a
// fully valid transfer of the proposed sizes.
func (b *c04Base) refAccepts(altered []byte) bool {
	items := parseWire(altered)
	if len(items) != 1 || items[0].Frame == nil || !items[0].Frame.Complete || items[0].End != len(altered) {
		return false
	}
	f := items[0].Frame
	if f.HeaderLen != len(f.Title)+len(f.Offset)+2 || f.Offset != "0" || len(f.Title) < 1 {
		return false
	}
	if strings.ContainsRune(f.Title+f.Offset, 0) {
		return false
	}
	sum := int(f.Checksum)
	for _, c := range f.Data {
		sum += int(c)
	}
	if sum&0xff != 0 || len(f.Data) != b.csize {
		return false
	}
	res, err := rl.DecodeB2(f.Data)
	return err == nil && len(res.Data) == b.usize
}

func (b *c04Base) alter(edits []link.Edit) []byte {
	// apply to the frame range only (edits are within it)
	full := make([]byte, 0, len(b.wire)+8)
	for i := 0; i < len(b.wire); i++ {
		skip := false
		for _, e := range edits {
			if e.Off == i {
				full = append(full, e.Ins...)
			}
			if i >= e.Off && i < e.Off+e.Del {
				skip = true
			}
		}
		if !skip {
			full = append(full, b.wire[i])
		}
	}
	grow := len(full) - len(b.wire)
	return full[b.start : b.end+grow]
}

// c04Judge returns (class, detail, excluded).
func (b *c04Base) judge(edits []link.Edit) (string, string, bool) {
	if b.refAccepts(b.alter(edits)) {
		return "", "", true
	}
	windows := []int{0}
	if len(b.others) > 0 {
		windows = []int{0, 1, 300}
	}
	for _, w := range windows {
		if c, d := b.judgeWindow(edits, w); c != "" {
			if w > 0 {
				d += fmt.Sprintf(" (flow-controlled link, window %d)", w)
			}
			return c, d, false
		}
	}
	return "", "", false
}

func (b *c04Base) judgeWindow(edits []link.Edit, window int) (string, string) {
	l, res, boxes, queued := c04Exchange(b.spec, edits, window, b.others...)
	_ = l
	mid := b.spec.MID
	delivered := 0
	for _, c := range boxes[1].CallsOf("ProcessInbound") {
		if c.MID == mid {
			delivered++
			if !bytes.Equal(c.Bytes, queued) {
				return "delivered-altered-content", fmt.Sprintf("ProcessInbound got %d bytes differing from the %d queued (receiver error: %v)", len(c.Bytes), len(queued), res[1].Err)
			}
		}
	}
	if delivered > 0 {
		return "delivered-damaged-transfer", fmt.Sprintf("ProcessInbound called although the transfer was altered in transit (content happens to equal the original; receiver error: %v)", res[1].Err)
	}
	for _, c := range boxes[0].CallsOf("SetSent") {
		if c.MID == mid && !c.Flag {
			return "sender-marked-sent", "SetSent(mid,false) although the transfer was damaged"
		}
	}
	if res[1].Panic != "" {
		return "receiver-panic|" + sess.PanicSiteOf(res[1].Stack), res[1].Panic
	}
	if res[0].Panic != "" {
		return "sender-panic|" + sess.PanicSiteOf(res[0].Stack), res[0].Panic
	}
	if res[1].Err == nil {
		return "receiver-no-error", "receiving Exchange returned nil"
	}
	return "", ""
}

func C04(args []string) {
	r := core.Begin("C04", "fault_enumeration", args)
	msgs := c04Messages()
	if p := replayArg(args); p != "" {
		var f struct {
			Case c04Case `json:"case"`
		}
		readJSON(p, &f)
		var others []sess.MsgSpec
		for _, k := range f.Case.With {
			others = append(others, msgs[k])
		}
		b := c04Prepare(msgs[f.Case.Msg], others...)
		c, d, ex := b.judge(f.Case.Edits)
		fmt.Printf("message %d (%s) frame at [%d,%d) edits %+v: class=%q %s excluded=%v\n", f.Case.Msg, msgs[f.Case.Msg].MID, b.start, b.end, f.Case.Edits, c, d, ex)
		return
	}
	nm := 3
	if r.Thorough() {
		nm = c04Large // the large message has its own family below
	}
	var cases []c04Case
	for mi := 0; mi < nm; mi++ {
		b := c04Prepare(msgs[mi])
		for off := b.start; off < b.end; off++ {
			orig := b.wire[off]
			if mi == 2 && !r.Thorough() {
				// multi-chunk message in the quick tier: a fixed menu per byte instead of all 255
				for _, v := range []byte{orig + 1, orig - 1, orig ^ 0x80, 0, 0xff, orig + b.wire[b.dataOffs[0]] + b.wire[b.dataOffs[1]]} {
					if v != orig {
						cases = append(cases, c04Case{Msg: mi, Kind: "subst", Edits: []link.Edit{{Off: off, Del: 1, Ins: []byte{v}}}})
					}
				}
			} else {
				for v := 0; v < 256; v++ {
					if byte(v) != orig {
						cases = append(cases, c04Case{Msg: mi, Kind: "subst", Edits: []link.Edit{{Off: off, Del: 1, Ins: []byte{byte(v)}}}})
					}
				}
			}
			cases = append(cases, c04Case{Msg: mi, Kind: "delete", Edits: []link.Edit{{Off: off, Del: 1}}})
			for _, v := range []byte{0, 1, 2, 4, 0xff} {
				cases = append(cases, c04Case{Msg: mi, Kind: "insert", Edits: []link.Edit{{Off: off, Ins: []byte{v}}}})
			}
		}
		// checksum-compensating pairs on data bytes
		for i, o1 := range b.dataOffs {
			for dist := 1; dist <= 8 && i+dist < len(b.dataOffs); dist++ {
				o2 := b.dataOffs[i+dist]
				for _, d := range []byte{1, 2, 0x80, 0xff} {
					cases = append(cases, c04Case{Msg: mi, Kind: "pair", Edits: []link.Edit{{Off: o1, Del: 1, Ins: []byte{b.wire[o1] + d}}, {Off: o2, Del: 1, Ins: []byte{b.wire[o2] - d}}}})
				}
			}
			if i+1 < len(b.dataOffs) && b.wire[o1] != b.wire[b.dataOffs[i+1]] {
				o2 := b.dataOffs[i+1]
				cases = append(cases, c04Case{Msg: mi, Kind: "swap", Edits: []link.Edit{{Off: o1, Del: 1, Ins: []byte{b.wire[o2]}}, {Off: o2, Del: 1, Ins: []byte{b.wire[o1]}}}})
			}
		}
		// data byte compensated in the EOT checksum byte
		for _, o1 := range b.dataOffs {
			for _, d := range []byte{1, 0x80} {
				cases = append(cases, c04Case{Msg: mi, Kind: "pair-with-checksum", Edits: []link.Edit{{Off: o1, Del: 1, Ins: []byte{b.wire[o1] + d}}, {Off: b.end - 1, Del: 1, Ins: []byte{b.wire[b.end-1] - d}}}})
			}
		}
	}
	// a large message (size-dependent paths): sum-preserving pairs, substitutions and checksum-compensated
	// changes at every 97th (thorough: 13th) data byte, and the first and last 16
	{
		b := c04Prepare(msgs[c04Large])
		step := 97
		if r.Thorough() {
			step = 13
		}
		for i, o1 := range b.dataOffs {
			if i%step != 0 && i >= 16 && i < len(b.dataOffs)-17 {
				continue
			}
			if i+1 < len(b.dataOffs) {
				o2 := b.dataOffs[i+1]
				cases = append(cases, c04Case{Msg: c04Large, Kind: "pair-large", Edits: []link.Edit{{Off: o1, Del: 1, Ins: []byte{b.wire[o1] + 1}}, {Off: o2, Del: 1, Ins: []byte{b.wire[o2] - 1}}}})
			}
			cases = append(cases, c04Case{Msg: c04Large, Kind: "subst-large", Edits: []link.Edit{{Off: o1, Del: 1, Ins: []byte{b.wire[o1] ^ 0x55}}}},
				c04Case{Msg: c04Large, Kind: "pair-with-checksum-large", Edits: []link.Edit{{Off: o1, Del: 1, Ins: []byte{b.wire[o1] + 1}}, {Off: b.end - 1, Del: 1, Ins: []byte{b.wire[b.end-1] - 1}}}})
		}
	}
	// blocks of two and three accepted messages: damage in a transfer that is not the last of its
	// block must still fail the whole exchange (sum-preserving pairs, a substitution menu, deletions)
	blocks := [][]int{{0, 4}, {4, 0}, {0, 4, 5}, {5, 0, 4}}
	if r.Thorough() {
		blocks = append(blocks, []int{1, 0}, []int{0, 1, 4}, []int{2, 5})
	}
	for _, blk := range blocks {
		var others []sess.MsgSpec
		for _, k := range blk[1:] {
			others = append(others, msgs[k])
		}
		b := c04Prepare(msgs[blk[0]], others...)
		for i, o1 := range b.dataOffs {
			if i+1 < len(b.dataOffs) {
				o2 := b.dataOffs[i+1]
				cases = append(cases, c04Case{Msg: blk[0], With: blk[1:], Kind: "pair-in-block", Edits: []link.Edit{{Off: o1, Del: 1, Ins: []byte{b.wire[o1] + 1}}, {Off: o2, Del: 1, Ins: []byte{b.wire[o2] - 1}}}})
			}
			if i%7 == 0 {
				cases = append(cases, c04Case{Msg: blk[0], With: blk[1:], Kind: "subst-in-block", Edits: []link.Edit{{Off: o1, Del: 1, Ins: []byte{b.wire[o1] ^ 0x55}}}},
					c04Case{Msg: blk[0], With: blk[1:], Kind: "delete-in-block", Edits: []link.Edit{{Off: o1, Del: 1}}})
			}
		}
		for off := b.start; off < b.start+12 && off < b.end; off++ {
			for _, v := range []byte{0, 1, 2, 4, 0xff, b.wire[off] + 1, b.wire[off] - 1} {
				if v != b.wire[off] {
					cases = append(cases, c04Case{Msg: blk[0], With: blk[1:], Kind: "subst-in-block", Edits: []link.Edit{{Off: off, Del: 1, Ins: []byte{v}}}})
				}
			}
		}
	}
	bases := map[string]*c04Base{}
	r.Sharded(len(cases), func(i int) {
		c := cases[i]
		key := fmt.Sprint(c.Msg, c.With)
		b := bases[key]
		if b == nil {
			var others []sess.MsgSpec
			for _, k := range c.With {
				others = append(others, msgs[k])
			}
			x := c04Prepare(msgs[c.Msg], others...)
			b = &x
			bases[key] = b
		}
		class, detail, excluded := b.judge(c.Edits)
		r.Evals.Add(1)
		if excluded {
			r.Add("excluded_reference_accepts", 1)
			return
		}
		r.Nontrivial.Add(1)
		r.Add("kind_"+c.Kind, 1)
		if class != "" {
			r.Violation("C04|"+class, fmt.Sprintf("message %s, %s %+v: %s", msgs[c.Msg].MID, c.Kind, c.Edits, detail), c)
		}
		if i%20011 == 0 {
			r.Sample(c)
		}
	}, core.ShardOpts{Watchdog: 120e9})
	add := r.Added()
	cov := core.Coverage{
		"evaluations":         r.Evals.Load(),
		"distinct_nontrivial": r.Nontrivial.Load(),
		"rule":                "one evaluation = one complete sender/receiver exchange with one in-transit alteration of the SOH..EOT range (every offset x every substitution value, every deletion, insertions, checksum-compensating pairs, swaps); non-trivial = the alteration is not one the independent B2F/LZHUF reference also accepts as a fully valid transfer (each alteration is distinct by construction)",
		"messages":            nm, "excluded_reference_accepts": add["excluded_reference_accepts"],
	}
	for k, v := range add {
		if strings.HasPrefix(k, "kind_") {
			cov[k] = v
		}
	}
	_ = b2f.SOH
	r.Finish(cov, []string{"the SOH..EOT range is located by the reference frame parser on the sender's bytes of a clean run; the sender's bytes before the alteration do not depend on it"})
}
