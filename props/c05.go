package props

import (
	"bytes"
	"fmt"
	"sort"
	"strings"

	"github.com/la5nta/wl2k-go/fbb"

	"verif/core"
	"verif/link"
	"verif/ref/b2f"
	"verif/sess"
)

func init() { Registry["C05"] = C05 }

type c05Scn struct {
	LibSet, PeerSet int
	Policy          int
	LibMaster       bool
	Block           int // 0 default 250, 1..256, 257 = cycling
	Accept, Reject  int
	Defer           int
	Comments, MOTD  int
	FW, SID         int
	EarlyFQ, Dup    bool
	LowerHex, CM    bool
	LibCfg          int
	Seg             int
	Hold            int // 0 none; 1 the peer answers FF on its first turn although it has messages; 2 likewise and the peer moves first
}

func (s c05Scn) describe() string {
	return fmt.Sprintf("libSet=%d peerSet=%d policy=%d libMaster=%v block=%d spell=%d/%d/%d comments=%d motd=%d fw=%d sid=%d earlyFQ=%v dup=%v lowerHex=%v cm=%v libCfg=%d seg=%d hold=%d",
		s.LibSet, s.PeerSet, s.Policy, s.LibMaster, s.Block, s.Accept, s.Reject, s.Defer, s.Comments, s.MOTD, s.FW, s.SID, s.EarlyFQ, s.Dup, s.LowerHex, s.CM, s.LibCfg, c01Segs[s.Seg], s.Hold)
}

var c05Sizes = []int{nMsgShapes, nMsgShapes, c01NPolicies, 2, 258, len(b2f.AcceptSpellings) + 1, len(b2f.RejectSpellings) + 1, len(b2f.DeferSpellings) + 1, 7, 4, 3, len(b2f.SIDs), 2, 2, 2, 2, 6, len(c01Segs), 3}

func c05FromIdx(x []int) c05Scn {
	return c05Scn{LibSet: c01Shape(x[0], 2), PeerSet: c01Shape(x[1], 1), Policy: x[2], LibMaster: x[3] == 1, Block: x[4], Accept: x[5], Reject: x[6], Defer: x[7],
		Comments: x[8], MOTD: x[9], FW: x[10], SID: x[11], EarlyFQ: x[12] == 1, Dup: x[13] == 1, LowerHex: x[14] == 1, CM: x[15] == 1, LibCfg: x[16], Seg: x[17], Hold: x[18]}
}

type c05Out struct {
	Class, Detail string
	Transfers     int
	Key           string
}

func c05Run(sc c05Scn) c05Out {
	hold := 0
	if sc.Hold > 0 {
		hold = 1
	}
	if sc.Hold == 2 {
		sc.LibMaster = true // the peer (slave) moves first
	}
	libCall, peerCall := "N0LIB", "N0PEER"
	libCallIn, locator := "N0LIB", "JO39EQ"
	ua := fbb.StdUA
	var aux []fbb.Address
	switch sc.LibCfg {
	case 1:
		libCallIn, libCall = "n0lib-7", "N0LIB-7"
	case 2:
		ua = fbb.UserAgent{Name: "MyApp", Version: "1.2.3"}
	case 3:
		aux = []fbb.Address{fbb.AddressFromString("AUX1")}
	case 4:
		aux = []fbb.Address{fbb.AddressFromString("AUX1"), fbb.AddressFromString("AUX2-3")}
		locator = ""
	case 5: // secure login: the peer (when master) challenges; one auxiliary address has a password, the other has none
		aux = []fbb.Address{fbb.AddressFromString("AUX1"), fbb.AddressFromString("AUX2-3")}
	}
	challenge := ""
	if sc.LibCfg == 5 && !sc.LibMaster && sc.Hold != 2 {
		challenge = "23753528"
	}
	VariantFrom = map[string]string{"A": libCall, "B": peerCall}
	libSpecs, peerSpecs := msgSetShape(sc.LibSet, "A"), msgSetShape(sc.PeerSet, "B")
	box := sess.NewBox("lib")
	libWant := map[string][]byte{}
	for _, sp := range libSpecs {
		m := sp.Build(libCall)
		box.AddOut(m)
		libWant[sp.MID] = sess.MsgBytes(m)
	}
	truth := truthOf(libSpecs, libCall)
	peerTruth := truthOf(peerSpecs, peerCall)
	var outbox []b2f.Msg
	for _, sp := range peerSpecs {
		outbox = append(outbox, peerTruth[sp.MID])
	}
	// policies by sorted MID position
	libAns, peerAns := map[string]byte{}, map[string]byte{}
	for pos, mid := range sess.SortedKeys(peerTruth) {
		a := c01Policy(sc.Policy, pos, len(peerTruth))
		libAns[mid] = a
		box.Policy[mid] = a
	}
	for pos, mid := range sess.SortedKeys(truth) {
		peerAns[mid] = c01Policy(sc.Policy, pos, len(truth))
	}
	blk := sc.Block
	if blk == 257 {
		blk = -1
	}
	peer := &b2f.Peer{Master: !sc.LibMaster, MyCall: peerCall, Other: libCall, Outbox: outbox, Truth: truth,
		Answer: func(mid string) byte {
			if a, ok := peerAns[mid]; ok {
				return a
			}
			return '+'
		},
		C: b2f.Choices{BlockSize: blk, AcceptSpell: sc.Accept, RejectSpell: sc.Reject, DeferSpell: sc.Defer, Comments: sc.Comments, MOTD: sc.MOTD, FW: sc.FW, SID: sc.SID,
			EarlyFQ: sc.EarlyFQ, DupMID: sc.Dup, LowerHex: sc.LowerHex, PropCM: sc.CM, HoldTurns: hold, Challenge: challenge}}
	// a peer that says FQ early hangs up at once, as a CMS does: what the Session still writes then fails
	plan := link.Plan{Cut: link.NoCut(), FailAfter: -1, PeerClosedWritesFail: sc.EarlyFQ}
	for d := 0; d < 2; d++ {
		plan.Seg[d].Every = c01Segs[sc.Seg]
	}
	l := link.New(plan)
	var res sess.Result
	var peerPanic string
	l.Run(func(c *link.Conn) {
		res = sess.RunScriptConn(sess.Station{Call: libCallIn, Locator: locator, Master: sc.LibMaster, Handler: box,
			Configure: func(s *fbb.Session) {
				s.SetUserAgent(ua)
				if len(aux) > 0 {
					s.AddAuxiliaryAddress(aux...)
				}
				if sc.LibCfg == 5 {
					s.SetSecureLoginHandleFunc(func(a fbb.Address) (string, error) {
						return map[string]string{libCall: "mainPW", "AUX1": "auxPW"}[a.Addr], nil
					})
				}
			}}, peerCall, c)
	}, func(c *link.Conn) {
		defer func() {
			if e := recover(); e != nil {
				peerPanic = fmt.Sprint(e)
				c.Close()
			}
		}()
		peer.Run(c)
		if sc.EarlyFQ {
			c.Close()
		}
	})
	var o c05Out
	fail := func(class, format string, a ...any) c05Out {
		o.Class, o.Detail = class, fmt.Sprintf(format, a...)
		return o
	}
	if peerPanic != "" {
		panic("reference peer panicked: " + peerPanic)
	}
	if res.Panic != "" {
		return fail("panic|"+sess.PanicSiteOf(res.Stack), "%s", res.Panic)
	}
	// the forwarder list handed to the mailbox is the one the peer announced (hashes stripped, all items)
	wantFW := map[int]string{0: peerCall, 1: peerCall + " " + peerCall + "-5 AUX1", 2: ""}[sc.FW]
	for _, c := range box.CallsOf("GetOutbound") {
		if !strings.EqualFold(c.FW, wantFW) {
			return fail("forwarders-handed-to-the-handler", "GetOutbound was called with %q, the peer's ;FW line announced %q", c.FW, wantFW)
		}
	}
	// the ;FW line requests mail for the session's own address and every auxiliary address, in order
	// (an item is ADDRESS or ADDRESS|hash; the hash values are C16's subject)
	if peer.FWSeen != "" {
		var gotFW []string
		for _, f := range strings.Fields(peer.FWSeen[4:]) {
			gotFW = append(gotFW, strings.SplitN(f, "|", 2)[0])
		}
		wantAddrs := []string{libCall}
		for _, a := range aux {
			wantAddrs = append(wantAddrs, a.Addr)
		}
		if strings.Join(gotFW, " ") != strings.Join(wantAddrs, " ") {
			return fail("fw-line-addresses", "the Session sent %q; configured addresses: %v", peer.FWSeen, wantAddrs)
		}
	}
	// the one known event-finding: answer H (accepted, will be held) is treated as defer
	usedH := len(peer.HeldMIDs) > 0
	if len(peer.Complaints) > 0 {
		c := peer.Complaints[0]
		return fail("nonconforming|"+c.Rule, "%s (and %d more complaints)", c.Got, len(peer.Complaints)-1)
	}
	if usedH && (l.Deadlock || peer.Fatal != "" || res.Err != nil) {
		return fail("answer-H-treated-as-defer", "peer answered H (accepted, will be held) and waits for a transfer the Session never sends (peer: %s; Exchange: %v)", peer.Fatal, res.Err)
	}
	if l.Horizon {
		return fail("no-termination", "operation horizon reached")
	}
	if l.Deadlock {
		return fail("deadlock", "both sides waiting (peer: %s; Exchange error: %v)", peer.Fatal, res.Err)
	}
	if peer.Fatal != "" {
		return fail("peer-gave-up", "%s (Exchange error: %v)", peer.Fatal, res.Err)
	}
	if res.Err != nil {
		return fail("exchange-error-on-conforming-peer", "%v", res.Err)
	}
	if !peer.Done {
		return fail("session-incomplete", "peer did not reach FQ")
	}
	if l.Closes[0] == 0 {
		return fail("conn-not-closed", "")
	}
	// outcomes: library -> peer
	recv := map[string]int{}
	for _, t := range peer.Received {
		recv[t.MID]++
	}
	for _, sp := range libSpecs {
		mid := sp.MID
		nOK, nRej, nDef := 0, 0, 0
		for _, c := range box.CallsOf("SetSent") {
			if c.MID == mid {
				if c.Flag {
					nRej++
				} else {
					nOK++
				}
			}
		}
		for _, c := range box.CallsOf("SetDeferred") {
			if c.MID == mid {
				nDef++
			}
		}
		proposed := false
		for _, b := range peer.Proposed {
			for _, m := range b {
				if m == mid {
					proposed = true
				}
			}
		}
		if !proposed {
			if !sc.EarlyFQ && !(usedH) {
				return fail("message-never-proposed", "%s", mid)
			}
			if nOK+nRej+nDef != 0 {
				return fail("callback-for-unproposed-message", "%s", mid)
			}
			continue
		}
		a := peerAns[mid]
		if peer.HeldMIDs[mid] {
			continue
		}
		switch a {
		case '+':
			if recv[mid] != 1 {
				return fail("accepted-transfer-count", "%s transferred %d times", mid, recv[mid])
			}
			// confirmation needs the peer's next turn; with early FQ that is the FQ itself
			if nOK != 1 || nRej != 0 || nDef != 0 {
				return fail("accepted-callbacks", "%s: SetSent(ok) x%d SetSent(rejected) x%d SetDeferred x%d", mid, nOK, nRej, nDef)
			}
			o.Transfers++
		case '-':
			if recv[mid] != 0 || nOK != 0 || nRej != 1 || nDef != 0 {
				return fail("rejected-outcome", "%s: transfers %d SetSent(ok) x%d SetSent(rejected) x%d SetDeferred x%d", mid, recv[mid], nOK, nRej, nDef)
			}
		case '=':
			if recv[mid] != 0 || nOK != 0 || nRej != 0 || nDef < 1 {
				return fail("deferred-outcome", "%s: transfers %d SetSent(ok) x%d SetSent(rejected) x%d SetDeferred x%d", mid, recv[mid], nOK, nRej, nDef)
			}
		}
	}
	var sentStat []string
	for _, sp := range libSpecs {
		if peerAns[sp.MID] == '+' && recv[sp.MID] == 1 && !peer.HeldMIDs[sp.MID] {
			sentStat = append(sentStat, sp.MID)
		}
	}
	gotSent := append([]string{}, res.Stats.Sent...)
	sort.Strings(gotSent)
	sort.Strings(sentStat)
	if strings.Join(gotSent, ",") != strings.Join(sentStat, ",") {
		return fail("stats-sent", "Sent=%v want %v", gotSent, sentStat)
	}
	// outcomes: peer -> library
	var wantRecv []string
	for _, sp := range peerSpecs {
		mid := sp.MID
		n := 0
		for _, c := range box.CallsOf("ProcessInbound") {
			if c.MID == mid {
				n++
				if !bytes.Equal(c.Bytes, peerTruth[mid].Data) {
					return fail("inbound-content-mismatch", "%s: %d bytes delivered, %d sent", mid, len(c.Bytes), len(peerTruth[mid].Data))
				}
			}
		}
		got, answered := peer.AnswersGot[mid]
		if !answered {
			if hold > 0 && len(peer.AnswersGot) == 0 {
				continue // the session ended (legitimately) before the held-back messages were ever offered
			}
			return fail("peer-message-never-answered", "%s", mid)
		}
		if got != libAns[mid] {
			return fail("answer-differs-from-handler", "%s: wire answer %c, handler said %c", mid, got, libAns[mid])
		}
		wantN := 0
		if libAns[mid] == '+' {
			wantN = 1
			wantRecv = append(wantRecv, mid)
			o.Transfers++
		}
		if n != wantN {
			return fail("inbound-delivery-count", "%s: ProcessInbound x%d want %d", mid, n, wantN)
		}
	}
	gotRecv := append([]string{}, res.Stats.Received...)
	sort.Strings(gotRecv)
	sort.Strings(wantRecv)
	if strings.Join(gotRecv, ",") != strings.Join(wantRecv, ",") {
		return fail("stats-received", "Received=%v want %v", gotRecv, wantRecv)
	}
	o.Key = fmt.Sprintf("%d/%d/%d", o.Transfers, len(l.Written(0)), len(l.Written(1)))
	return o
}

func C05(args []string) {
	r := core.Begin("C05", "model_checking", args)
	if p := replayArg(args); p != "" {
		var f struct {
			Case c05Scn `json:"case"`
		}
		readJSON(p, &f)
		o := c05Run(f.Case)
		fmt.Printf("%s\nclass=%q %s\n", f.Case.describe(), o.Class, o.Detail)
		return
	}
	dev := 2
	if r.Thorough() {
		dev = 3
	}
	var scns []c05Scn
	if dev == 3 {
		// triples restricted to the smaller dimensions; pairs complete
		devProduct(c05Sizes, 2, func(x []int) { scns = append(scns, c05FromIdx(x)) })
		small := append([]int{}, c05Sizes...)
		small[0], small[1], small[2], small[4] = 12, 12, 12, 9 // first shapes/policies, block sizes 0..8
		devProduct(small, 3, func(x []int) {
			nz := 0
			for _, v := range x {
				if v != 0 {
					nz++
				}
			}
			if nz == 3 {
				sc := c05FromIdx(x)
				if x[4] > 0 {
					sc.Block = []int{0, 1, 2, 125, 126, 255, 256, 257, 3}[x[4]]
				}
				scns = append(scns, sc)
			}
		})
	} else {
		devProduct(c05Sizes, 2, func(x []int) { scns = append(scns, c05FromIdx(x)) })
	}
	r.Sharded(len(scns), func(i int) {
		sc := scns[i]
		o := c05Run(sc)
		r.Evals.Add(1)
		if o.Class != "" {
			r.Violation("C05|"+o.Class, sc.describe()+": "+o.Detail, sc)
			return
		}
		if o.Transfers > 0 {
			r.Nontrivial.Add(1)
			r.Distinct(fmt.Sprint(i))
		}
		r.Key(fmt.Sprintf("transfers=%d", o.Transfers))
		if i%2999 == 0 {
			r.Sample(map[string]any{"scenario": sc.describe(), "transfers": o.Transfers})
		}
		if i%97 == 0 {
			if o2 := c05Run(sc); o2.Key != o.Key {
				panic("NONDETERMINISM " + sc.describe())
			}
			r.Add("replayed_identically", 1)
		}
	}, core.ShardOpts{Watchdog: 120e9})
	add := r.Added()
	r.Finish(core.Coverage{
		"states":                        int64(r.DistinctN()),
		"transitions":                   r.Evals.Load(),
		"traces_validated_against_impl": r.Evals.Load(),
		"distinct_nontrivial":           int64(r.DistinctN()),
		"rule":                          "one evaluation = one complete exchange between a real Session and the independent strict B2F peer; deviation-bounded product over 18 components (message sets, policies, role, all 257 data block sizes, answer spellings, comment placement, MOTD, ;FW, SID, early FQ, duplicate MID, checksum case, CM type, library configuration, segmentation); distinct non-trivial = scenarios with at least one transfer",
		"deviation_bound":               dev, "scenarios": len(scns), "replayed_identically": add["replayed_identically"], "distinct_outcomes": len(r.Keys()),
	}, []string{
		"the reference peer is written from docs/F6FBB-B2F and DESIGN.md App. E.2/H; its LZHUF/CRC are the golden-anchored references",
		"excluded: answer E (it reports an error in a proposal line the validator has just accepted)",
	})
}
