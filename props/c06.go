package props

import (
	"bytes"
	"fmt"
	"io"
	"sync/atomic"

	"verif/core"
	rl "verif/ref/lzhuf"
)

func init() { Registry["C06"] = C06 }

type c06Case struct {
	Family   string `json:"family"`
	InputHex string `json:"input_hex,omitempty"`
	Name     string `json:"name,omitempty"`
	CRC      bool   `json:"crc"`
	Cuts     []int  `json:"write_cuts"`
	ZeroAt   int    `json:"zero_write_at"`
	Reads    []int  `json:"read_sizes"`
}

// c06Round judges one (input, write partition, read sizes): returns violation class or "".
func c06Encode(in []byte, crc bool, cuts []int, zeroAt int, ref []byte) (out []byte, class, detail string) {
	out, cerr, pmsg, site := libEncode(in, crc, cuts, zeroAt)
	switch {
	case pmsg != "":
		return nil, "encode-panic|" + site, pmsg
	case cerr != nil:
		return nil, "encode-error", cerr.Error()
	case ref != nil && !bytes.Equal(out, ref):
		return out, "chunking-dependent-output", fmt.Sprintf("got %x want %x", out, ref)
	}
	return out, "", ""
}

func c06Decode(comp, in []byte, crc bool, reads []int) (class, detail string) {
	o := libDecode(comp, crc, reads, 0, len(in)+4096)
	switch {
	case o.Panic != "":
		return "decode-panic|" + o.Site, o.Panic
	case o.NewErr != nil:
		return "decode-newreader-error", o.NewErr.Error()
	case o.Livelock:
		return "decode-livelock", fmt.Sprintf("after %d bytes", len(o.Data))
	case o.ReadErr != io.EOF:
		return "decode-read-error", fmt.Sprint(o.ReadErr)
	case !bytes.Equal(o.Data, in):
		return "roundtrip-mismatch", fmt.Sprintf("got %d bytes %q want %d bytes %q", len(o.Data), core.Trunc(string(o.Data), 60), len(in), core.Trunc(string(in), 60))
	case o.CloseErr != nil:
		return "decode-close-error", o.CloseErr.Error()
	}
	return "", ""
}

func C06(args []string) {
	r := core.Begin("C06", "model_checking", args)
	r.WatchProgress(watchPeriod()) // the code under test runs in this process: a call that never returns must end the check
	if p := replayArg(args); p != "" {
		var f struct {
			Case c06Case `json:"case"`
		}
		readJSON(p, &f)
		c06Replay(f.Case)
		return
	}
	var encodes, decodes, rwcalls, matches atomic.Int64
	viol := func(class, detail string, c c06Case) {
		r.Violation("C06|"+class, detail, c)
	}
	// judgeInput runs the full chunking space for one short input.
	judgeShort := func(in []byte, crc bool, fullCross bool, zeroWrites bool) {
		n := len(in)
		ref, class, detail := c06Encode(in, crc, nil, -1, nil)
		encodes.Add(1)
		base := c06Case{Family: "short", InputHex: hexs(in), CRC: crc, ZeroAt: -1}
		if class != "" {
			viol(class, detail, base)
			return
		}
		if _, st := rl.EncodeRaw(in); st.Matches > 0 {
			matches.Add(1)
			r.Nontrivial.Add(1)
		}
		if n == 0 {
			// Write never called / only a zero-length write
			for _, z := range []int{-1, 0} {
				if _, class, detail := c06Encode(in, crc, nil, z, ref); class != "" {
					c := base
					c.ZeroAt = z
					viol(class, detail, c)
				}
			}
			if class, detail := c06Decode(ref, in, crc, []int{1}); class != "" {
				viol(class, detail, base)
			}
			return
		}
		// every partition into Write calls
		for mask := 0; mask < 1<<uint(n-1); mask++ {
			cuts := cutsOfMask(n, mask)
			_, class, detail := c06Encode(in, crc, cuts, -1, ref)
			encodes.Add(1)
			rwcalls.Add(int64(len(cuts) + 1))
			if class != "" {
				c := base
				c.Cuts = cuts
				viol(class, detail, c)
			}
			if zeroWrites {
				for z := 0; z <= len(cuts)+1; z++ {
					_, class, detail := c06Encode(in, crc, cuts, z, ref)
					encodes.Add(1)
					if class != "" {
						c := base
						c.Cuts, c.ZeroAt = cuts, z
						viol(class, detail, c)
					}
				}
			}
		}
		// every composition as Read buffer sizes (compressed bytes are identical for all
		// partitions, checked above, so decoding the reference bytes covers the cross product;
		// fullCross additionally decodes what each partition produced, which is the same bytes)
		compositions(n, func(parts []int) {
			class, detail := c06Decode(ref, in, crc, parts)
			decodes.Add(1)
			rwcalls.Add(int64(len(parts)))
			if class != "" {
				c := base
				c.Reads = append([]int{}, parts...)
				viol(class, detail, c)
			}
		})
		r.Evals.Add(int64(1<<uint(n-1)) * 2)
	}

	maxAB, maxABC := 10, 7
	if r.Thorough() {
		maxAB, maxABC = 12, 8
	}
	type job struct {
		alpha []byte
		n     int
		idx   int
	}
	var jobs []job
	for _, al := range [][]byte{[]byte("ab"), []byte("a "), []byte("a\x00")} {
		for n := 0; n <= maxAB; n++ {
			for i := 0; i < countStrings(2, n); i++ {
				jobs = append(jobs, job{al, n, i})
			}
		}
	}
	for n := 1; n <= maxABC; n++ {
		for i := 0; i < countStrings(3, n); i++ {
			jobs = append(jobs, job{[]byte("abc"), n, i})
		}
	}
	core.ParallelFor(len(jobs), func(i int) {
		j := jobs[i]
		in := nthString(j.alpha, j.n, j.idx)
		judgeShort(in, true, j.n <= 7, j.n <= 6)
		if j.n <= 8 {
			judgeShort(in, false, false, false)
		}
		if i%9973 == 0 {
			r.Sample(map[string]any{"family": "short", "input": string(in), "write_partitions": 1 << uint(maxInt(j.n-1, 0)), "read_compositions": 1 << uint(maxInt(j.n-1, 0))})
		}
	})
	shortInputs := len(jobs)

	// (b) structured family: periods x lengths x single / pair write cuts, constant read sizes 1..70
	periods := []int{1, 2, 3, 4, 59, 60, 61}
	maxLen := 200
	type sjob struct{ p, n int }
	var sjobs []sjob
	for _, p := range periods {
		for n := 0; n <= maxLen; n++ {
			sjobs = append(sjobs, sjob{p, n})
		}
	}
	pairLens := map[int]bool{}
	for _, n := range []int{57, 58, 59, 60, 61, 62, 63, 119, 120, 121, 122} {
		pairLens[n] = true
	}
	core.ParallelFor(len(sjobs), func(i int) {
		j := sjobs[i]
		in := periodic(j.n, j.p)
		if j.p == 1 && j.n%2 == 1 {
			in = bytes.Repeat([]byte{' '}, j.n) // runs of the pre-fill byte
		}
		base := c06Case{Family: "structured", Name: fmt.Sprintf("period%d/len%d", j.p, j.n), InputHex: hexs(in), CRC: true, ZeroAt: -1}
		ref, class, detail := c06Encode(in, true, nil, -1, nil)
		if class != "" {
			viol(class, detail, base)
			return
		}
		if _, st := rl.EncodeRaw(in); st.Matches > 0 {
			r.Nontrivial.Add(1)
		}
		for c1 := 1; c1 < j.n; c1++ {
			_, class, detail := c06Encode(in, true, []int{c1}, -1, ref)
			encodes.Add(1)
			r.Evals.Add(1)
			if class != "" {
				c := base
				c.Cuts = []int{c1}
				viol(class, detail, c)
			}
			if r.Thorough() && j.n <= 130 || pairLens[j.n] {
				for c2 := c1 + 1; c2 < j.n; c2++ {
					_, class, detail := c06Encode(in, true, []int{c1, c2}, -1, ref)
					encodes.Add(1)
					r.Evals.Add(1)
					if class != "" {
						c := base
						c.Cuts = []int{c1, c2}
						viol(class, detail, c)
					}
				}
			}
		}
		for k := 1; k <= 70; k++ {
			class, detail := c06Decode(ref, in, true, []int{k})
			decodes.Add(1)
			r.Evals.Add(1)
			if class != "" {
				c := base
				c.Reads = []int{k}
				viol(class, detail, c)
			}
		}
		// two alternating read sizes walk the buffered match tail through every alignment
		for _, pr := range [][]int{{1, 59}, {59, 1}, {2, 61}, {60, 3}, {7, 1, 64}} {
			if class, detail := c06Decode(ref, in, true, pr); class != "" {
				c := base
				c.Reads = pr
				viol(class, detail, c)
			}
			decodes.Add(1)
		}
		if i%211 == 0 {
			r.Sample(map[string]any{"family": "structured", "name": base.Name})
		}
	})

	// (b2) run-length family over bytes that include 0x00 (stale or uninitialised buffer contents are
	// zero, so only inputs containing NUL can tell them from real data): A^n B and A^n B A^m B
	rl3 := []byte{0x00, 0x01, ' '}
	type rjob struct {
		a, b byte
		n    int
	}
	var rjobs []rjob
	maxRun := 320
	if r.Thorough() {
		maxRun = 700
	}
	for _, a := range rl3 {
		for _, b := range rl3 {
			if a != b {
				for n := 0; n <= maxRun; n++ {
					rjobs = append(rjobs, rjob{a, b, n})
				}
			}
		}
	}
	core.ParallelFor(len(rjobs), func(i int) {
		j := rjobs[i]
		one := append(bytes.Repeat([]byte{j.a}, j.n), j.b)
		for _, in := range [][]byte{one, append(append([]byte{}, one...), one...), append(append([]byte{}, one...), bytes.Repeat([]byte{j.a}, 61)...)} {
			base := c06Case{Family: "runlength", Name: fmt.Sprintf("%02x^%d %02x", j.a, j.n, j.b), InputHex: hexs(in), CRC: true, ZeroAt: -1}
			ref, class, detail := c06Encode(in, true, nil, -1, nil)
			encodes.Add(1)
			if class != "" {
				viol(class, detail, base)
				continue
			}
			r.Nontrivial.Add(1)
			for _, cut := range []int{1, 59, 60, 61, j.n, j.n + 1} {
				if cut > 0 && cut < len(in) {
					_, class, detail := c06Encode(in, true, []int{cut}, -1, ref)
					encodes.Add(1)
					r.Evals.Add(1)
					if class != "" {
						c := base
						c.Cuts = []int{cut}
						viol(class, detail, c)
					}
				}
			}
			for _, k := range []int{1, 59, 60, 61, len(in) + 1} {
				class, detail := c06Decode(ref, in, true, []int{k})
				decodes.Add(1)
				r.Evals.Add(1)
				if class != "" {
					c := base
					c.Reads = []int{k}
					viol(class, detail, c)
				}
			}
		}
	})

	// (c) long family
	longs := longFamily(r.Thorough())
	chunkings := []int{0, 1, 59, 60, 61, 4096}
	core.ParallelFor(len(longs)*2, func(i int) {
		li := longs[i/2]
		crc := i%2 == 0
		in := li.Data
		base := c06Case{Family: "long", Name: li.Name, CRC: crc, ZeroAt: -1}
		ref, class, detail := c06Encode(in, crc, nil, -1, nil)
		if class != "" {
			viol(class, detail, base)
			return
		}
		r.Nontrivial.Add(1)
		for _, ch := range chunkings {
			if ch == 1 && len(in) > 70000 && !crc {
				continue
			}
			var cuts []int
			if ch > 0 {
				for c := ch; c < len(in); c += ch {
					cuts = append(cuts, c)
				}
			}
			_, class, detail := c06Encode(in, crc, cuts, -1, ref)
			encodes.Add(1)
			r.Evals.Add(1)
			if class != "" {
				c := base
				c.Cuts = []int{ch} // chunk size (not offsets) for the long family
				viol(class, "write chunk size "+fmt.Sprint(ch)+": "+core.Trunc(detail, 200), c)
			}
			rd := ch
			if rd == 0 {
				rd = len(in) + 1
			}
			class, detail = c06Decode(ref, in, crc, []int{rd})
			decodes.Add(1)
			r.Evals.Add(1)
			if class != "" {
				c := base
				c.Reads = []int{rd}
				viol(class, core.Trunc(detail, 300), c)
			}
		}
		r.Sample(map[string]any{"family": "long", "name": li.Name, "bytes": len(in), "compressed": len(ref)})
	})

	r.Finish(core.Coverage{
		"states":                        int64(shortInputs + len(sjobs) + len(rjobs)*3 + len(longs)),
		"transitions":                   encodes.Load() + decodes.Load(),
		"traces_validated_against_impl": encodes.Load() + decodes.Load(),
		"evaluations":                   r.Evals.Load(),
		"distinct_nontrivial":           r.Nontrivial.Load(),
		"rule":                          "states = distinct inputs; transitions = complete encode or decode runs of the real Writer/Reader (each a full sequence of Write/Read calls); non-trivial = distinct inputs for which the canonical encoder emits at least one match",
		"short_inputs":                  shortInputs, "max_len_two_symbols": maxAB, "max_len_three_symbols": maxABC,
		"structured_inputs": len(sjobs), "runlength_inputs": len(rjobs) * 3, "long_inputs": len(longs), "encodes": encodes.Load(), "decodes": decodes.Load(),
		"write_read_call_sequences": rwcalls.Load(),
	}, []string{
		"compressed bytes are required to be identical for every write partition, so decoding the common bytes under every read composition covers the partition x composition product",
		"long inputs are generated by fixed deterministic generators; no randomness in the deciding step",
	})
}

func maxInt(a, b int) int {
	if a > b {
		return a
	}
	return b
}

func c06Replay(c c06Case) {
	var in []byte
	fmt.Sscanf(c.InputHex, "%x", &in)
	if c.Family == "long" {
		for _, li := range longFamily(true) {
			if li.Name == c.Name {
				in = li.Data
			}
		}
		if len(c.Cuts) == 1 && c.Cuts[0] > 0 {
			ch := c.Cuts[0]
			c.Cuts = nil
			for x := ch; x < len(in); x += ch {
				c.Cuts = append(c.Cuts, x)
			}
		}
	}
	ref, class, detail := c06Encode(in, c.CRC, nil, -1, nil)
	fmt.Printf("input %d bytes; whole-write encode: class=%q %s\n", len(in), class, detail)
	out, class, detail := c06Encode(in, c.CRC, c.Cuts, c.ZeroAt, ref)
	fmt.Printf("partitioned encode: %d bytes class=%q %s\n", len(out), class, core.Trunc(detail, 300))
	reads := c.Reads
	if len(reads) == 0 {
		reads = []int{len(in) + 1}
	}
	class, detail = c06Decode(ref, in, c.CRC, reads)
	fmt.Printf("decode with reads %v: class=%q %s\n", reads, class, core.Trunc(detail, 300))
}
