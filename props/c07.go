package props

import (
	"bytes"
	"encoding/binary"
	"fmt"
	"io"
	"sync/atomic"

	"verif/core"
	rl "verif/ref/lzhuf"
)

func init() { Registry["C07"] = C07 }

type c07Case struct {
	Family   string `json:"family"`
	InputHex string `json:"input_hex,omitempty"`
	Name     string `json:"name,omitempty"`
	CRC      bool   `json:"crc"`
}

// c07JudgeStream judges one stream produced by the library for input in: canonical header, and the
// reference decoder reproduces the input.
func c07JudgeStream(out, in []byte, crc bool) (string, string) {
	raw := out
	if crc {
		if len(out) < 6 {
			return "header-short", hexs(out)
		}
		raw = out[2:]
		if got, want := binary.LittleEndian.Uint16(out), rl.CRC16(raw); got != want {
			return "header-crc", fmt.Sprintf("header CRC %04x, CRC-16/XMODEM over size+data is %04x", got, want)
		}
	}
	if len(raw) < 4 {
		return "header-short", hexs(out)
	}
	if sz := int32(binary.LittleEndian.Uint32(raw)); int(sz) != len(in) {
		return "header-size", fmt.Sprintf("size field %d, input %d bytes", sz, len(in))
	}
	res := rl.DecodeRaw(raw)
	if res.Err != nil {
		return "ref-cannot-decode-lib-stream", res.Err.Error()
	}
	if !bytes.Equal(res.Data, in) {
		return "ref-decodes-lib-stream-differently", fmt.Sprintf("ref got %q", core.Trunc(string(res.Data), 80))
	}
	return "", ""
}

// c07Judge checks both directions for one input; returns class, detail.
func c07Judge(in []byte, crc bool, identical *atomic.Int64) (string, string) {
	// library -> reference
	out, cerr, pmsg, site := libEncode(in, crc, nil, -1)
	if pmsg != "" {
		return "lib-encode-panic|" + site, pmsg
	}
	if cerr != nil {
		return "lib-encode-error", cerr.Error()
	}
	if c, d := c07JudgeStream(out, in, crc); c != "" {
		return c, d
	}
	// library -> reference again, with the input handed to the Writer in several Write calls (the
	// first one shorter than, equal to and longer than the 60-byte lookahead, byte-wise, 7-wise, and
	// preceded by an empty Write): the stream must not depend on it
	var plans [][]int
	for _, c := range []int{1, 10, 59, 60, 61, len(in) / 2} {
		if c > 0 && c < len(in) {
			plans = append(plans, []int{c})
		}
	}
	for _, every := range []int{1, 7} {
		if len(in) > every && len(in) <= 600 {
			var cuts []int
			for c := every; c < len(in); c += every {
				cuts = append(cuts, c)
			}
			plans = append(plans, cuts)
		}
	}
	plans = append(plans, nil) // with zeroAt 0
	for pi, cuts := range plans {
		zeroAt := -1
		if pi == len(plans)-1 {
			zeroAt = 0
		}
		out2, cerr, pmsg, site := libEncode(in, crc, cuts, zeroAt)
		tag := fmt.Sprintf(" (Write calls cut at %v, empty Write first: %v)", core.Trunc(fmt.Sprint(cuts), 60), zeroAt == 0)
		if pmsg != "" {
			return "lib-encode-panic|" + site, pmsg + tag
		}
		if cerr != nil {
			return "lib-encode-error", cerr.Error() + tag
		}
		if bytes.Equal(out2, out) {
			continue // judged above
		}
		// a stream that differs from the single-Write one is C06's business; here it must be canonical too
		if c, d := c07JudgeStream(out2, in, crc); c != "" {
			return c + "|segmented-writes", d + tag
		}
	}
	// reference -> library
	var enc []byte
	if crc {
		enc = rl.EncodeB2(in)
	} else {
		enc, _ = rl.EncodeRaw(in)
	}
	if bytes.Equal(enc, out) {
		identical.Add(1)
	}
	// the library must decode the canonical stream under any read pattern; a few fixed ones here
	// (C06 explores read compositions exhaustively on the library's own streams)
	type pattern struct {
		rs  []int
		src int // the compressed stream reaches the library in pieces of this many bytes (0: at once)
	}
	for _, pt := range []pattern{{[]int{len(in) + 1}, 0}, {[]int{1}, 0}, {[]int{7}, 0}, {[]int{512}, 0}, {[]int{3, 61}, 0}, {[]int{len(in) + 1}, 1}, {[]int{512}, 3}, {[]int{7}, 5}, {[]int{len(in) + 1}, -1}, {[]int{64}, -2}, {[]int{1}, -4096}} {
		rs := pt.rs
		if len(in) > 5000 && (rs[0] == 1 || pt.src == 1 || pt.src == -2) {
			continue
		}
		o := libDecode(enc, crc, rs, pt.src, len(in)+4096)
		tag := fmt.Sprintf(" (read sizes %v, source delivered in pieces of %d; negative: the last piece together with io.EOF)", rs, pt.src)
		switch {
		case o.Panic != "":
			return "lib-decode-panic|" + o.Site, o.Panic + tag
		case o.NewErr != nil:
			return "lib-rejects-ref-stream", o.NewErr.Error() + tag
		case o.Livelock:
			return "lib-decode-livelock", tag
		case o.ReadErr != io.EOF:
			return "lib-rejects-ref-stream", fmt.Sprint(o.ReadErr) + tag
		case !bytes.Equal(o.Data, in):
			return "lib-decodes-ref-stream-differently", fmt.Sprintf("lib got %d bytes %q, want %d bytes", len(o.Data), core.Trunc(string(o.Data), 80), len(in)) + tag
		case o.CloseErr != nil:
			return "lib-close-fails-on-ref-stream", o.CloseErr.Error() + tag
		}
	}
	return "", ""
}

// c07Huge: an input whose size needs all four bytes of the header's size field.
func c07Huge() namedInput {
	t := corpusText(1 << 30)
	return namedInput{"text-repeated/16MiB+4321", bytes.Repeat(t, (1<<24+4321)/len(t)+1)[:1<<24+4321]}
}

func C07(args []string) {
	r := core.Begin("C07", "model_checking", args)
	r.WatchProgress(watchPeriod()) // the code under test runs in this process: a call that never returns must end the check
	if p := replayArg(args); p != "" {
		var f struct {
			Case c07Case `json:"case"`
		}
		readJSON(p, &f)
		var in []byte
		fmt.Sscanf(f.Case.InputHex, "%x", &in)
		if f.Case.Family == "long" {
			for _, li := range append(longFamily(true), c07Huge()) {
				if li.Name == f.Case.Name {
					in = li.Data
				}
			}
		}
		var id atomic.Int64
		c, d := c07Judge(in, f.Case.CRC, &id)
		fmt.Printf("input %d bytes crc=%v: class=%q %s\n", len(in), f.Case.CRC, c, d)
		return
	}
	var identical, total atomic.Int64
	type spec struct {
		alpha string
		q, t  int
	}
	specs := []spec{{"ab", 14, 17}, {"a ", 14, 17}, {"abc", 9, 11}, {"ab c", 7, 9}, {"a\x00\xff \r\n", 5, 6}}
	type job struct {
		alpha []byte
		n     int
		idx   int
	}
	var jobs []job
	for _, s := range specs {
		max := s.q
		if r.Thorough() {
			max = s.t
		}
		for n := 0; n <= max; n++ {
			for i := 0; i < countStrings(len(s.alpha), n); i++ {
				jobs = append(jobs, job{[]byte(s.alpha), n, i})
			}
		}
	}
	core.ParallelFor(len(jobs), func(i int) {
		j := jobs[i]
		in := nthString(j.alpha, j.n, j.idx)
		for _, crc := range []bool{true, false} {
			total.Add(1)
			if c, d := c07Judge(in, crc, &identical); c != "" {
				r.Violation("C07|"+c, d, c07Case{Family: "short", InputHex: hexs(in), CRC: crc})
			}
		}
		if _, st := rl.EncodeRaw(in); st.Matches > 0 {
			r.Nontrivial.Add(1)
		}
		if i%20011 == 0 {
			r.Sample(map[string]any{"family": "short", "input": string(in)})
		}
	})
	// structured family (whole buffer): periods x lengths
	type sjob struct{ p, n int }
	var sjobs []sjob
	maxLen := 400
	if r.Thorough() {
		maxLen = 2200
	}
	for _, p := range []int{1, 2, 3, 4, 5, 7, 59, 60, 61, 62, 63, 64, 65} {
		for n := 0; n <= maxLen; n++ {
			sjobs = append(sjobs, sjob{p, n})
		}
	}
	core.ParallelFor(len(sjobs), func(i int) {
		j := sjobs[i]
		in := periodic(j.n, j.p)
		for _, crc := range []bool{true, false} {
			total.Add(1)
			if c, d := c07Judge(in, crc, &identical); c != "" {
				r.Violation("C07|"+c, d, c07Case{Family: "structured", Name: fmt.Sprintf("period%d/len%d", j.p, j.n), InputHex: hexs(in), CRC: crc})
			}
		}
		r.Nontrivial.Add(1)
	})
	// run-length family over bytes that include NUL (see C06)
	var rls [][]byte
	maxRun := 320
	if r.Thorough() {
		maxRun = 2300
	}
	for _, a := range []byte{0, 1, ' '} {
		for _, b := range []byte{0, 1, ' '} {
			if a != b {
				for n := 0; n <= maxRun; n++ {
					one := append(bytes.Repeat([]byte{a}, n), b)
					rls = append(rls, one, append(append([]byte{}, one...), one...))
				}
			}
		}
	}
	core.ParallelFor(len(rls), func(i int) {
		for _, crc := range []bool{true, false} {
			total.Add(1)
			if c, d := c07Judge(rls[i], crc, &identical); c != "" {
				r.Violation("C07|"+c, core.Trunc(d, 300), c07Case{Family: "runlength", InputHex: hexs(rls[i]), CRC: crc})
			}
		}
		r.Nontrivial.Add(1)
	})
	longs := longFamily(r.Thorough())
	// an input whose size needs all four bytes of the header's size field
	longs = append(longs, c07Huge())
	core.ParallelFor(len(longs)*2, func(i int) {
		li := longs[i/2]
		crc := i%2 == 0
		total.Add(1)
		if c, d := c07Judge(li.Data, crc, &identical); c != "" {
			r.Violation("C07|"+c, core.Trunc(d, 300), c07Case{Family: "long", Name: li.Name, CRC: crc})
		}
		r.Nontrivial.Add(1)
		if crc {
			r.Sample(map[string]any{"family": "long", "name": li.Name, "bytes": len(li.Data)})
		}
	})
	r.Evals.Store(total.Load())
	r.Finish(core.Coverage{
		"states":                        int64(len(jobs) + len(sjobs) + len(rls) + len(longs)),
		"transitions":                   total.Load() * 2,
		"traces_validated_against_impl": total.Load() * 2,
		"rule":                          "one evaluation = one input in both directions (library encoder -> reference decoder incl. header layout; reference encoder -> library decoder + Close); non-trivial = the canonical encoding contains a match",
		"byte_identical_encodings":      identical.Load(),
		"short_inputs":                  len(jobs), "runlength_inputs": len(rls), "structured_inputs": len(sjobs), "long_inputs": len(longs),
	}, []string{
		"the reference codec is anchored to the five golden .lzh files (decoder reproduces the originals, encoder reproduces the golden bytes) at every setup",
		"byte equality of the two encoders is recorded (byte_identical_encodings) but is not part of the oracle",
	})
}
