package props

import (
	"bytes"
	"encoding/binary"
	"fmt"
	"io"
	"sync/atomic"
	"time"

	"verif/core"
	rl "verif/ref/lzhuf"
)

func init() { Registry["C08"] = C08 }

type c08Case struct {
	Family    string `json:"family"`
	StreamHex string `json:"stream_hex"`
	CRC       bool   `json:"crc"`
	ReadSize  int    `json:"read_size"`
	SrcChunk  int    `json:"source_chunk"`
}

// c08Judge runs one stream through the real Reader and returns (class, detail, consumedPayload).
func c08Judge(stream []byte, crc bool, readSize, srcChunk int) (class, detail string, nontrivial bool) {
	class, detail, nontrivial, _ = c08JudgeV(stream, crc, readSize, srcChunk)
	return
}

// c08JudgeV additionally returns the verdict: 0 none (constructor refused / no terminal result), 1 Close
// returned nil after a normal end of stream, 2 Read or Close reported an error.
func c08JudgeV(stream []byte, crc bool, readSize, srcChunk int) (class, detail string, nontrivial bool, verdict int) {
	class, detail, nontrivial, verdict = c08JudgeInner(stream, crc, readSize, srcChunk)
	return
}

func c08JudgeInner(stream []byte, crc bool, readSize, srcChunk int) (class, detail string, nontrivial bool, verdict int) {
	post := stream
	var hdrCRC uint16
	if crc {
		if len(stream) >= 2 {
			hdrCRC = binary.LittleEndian.Uint16(stream)
			post = stream[2:]
		} else {
			post = nil
		}
	}
	declared := int64(-1 << 40)
	if len(post) >= 4 {
		declared = int64(int32(binary.LittleEndian.Uint32(post)))
	}
	limit := 1 << 16
	if declared > 0 && declared < int64(limit) {
		limit = int(declared) + 256
	}
	o := libDecode(stream, crc, []int{readSize}, srcChunk, limit)
	if o.Panic != "" {
		return "panic|" + o.Site, o.Panic, true, 0
	}
	if o.NewErr != nil {
		return "", "", false, 0 // constructor refused the header: fine
	}
	ref := rl.DecodeRaw(post)
	nontrivial = ref.BitsUsed > 0
	shape := "other"
	switch {
	case declared < 0:
		shape = "negative-size"
	case ref.Overrun:
		shape = "final-match-overrun"
	case ref.Truncated:
		shape = "truncated-stream"
	}
	if o.Livelock {
		return "livelock|" + shape, fmt.Sprintf("Read returned (0,nil) 64 times in a row after %d bytes (declared size %d)", len(o.Data), declared), nontrivial, 0
	}
	max := declared
	if max < 0 {
		max = 0
	}
	if int64(len(o.Data)) > max {
		return "more-than-declared|" + shape, fmt.Sprintf("%d bytes read, declared %d", len(o.Data), declared), nontrivial, 0
	}
	if o.TooMany {
		return "unbounded-output|" + shape, fmt.Sprintf("%d bytes and counting", len(o.Data)), nontrivial, 0
	}
	if o.ReadErr == nil {
		return "no-terminal-result|" + shape, "", nontrivial, 0
	}
	if o.CloseErr == nil {
		// integrity verdict must be sound
		if int64(len(o.Data)) != declared {
			return "close-ok-size-mismatch|" + shape, fmt.Sprintf("%d bytes read, declared %d", len(o.Data), declared), nontrivial, 0
		}
		if ref.Truncated {
			return "close-ok-on-truncated-stream", fmt.Sprintf("canonical decoding runs out of bits after %d bytes", len(ref.Data)), nontrivial, 1
		}
		want := ref.Data
		if int64(len(want)) > declared {
			want = want[:declared]
		}
		if !bytes.Equal(o.Data, want) {
			return "close-ok-wrong-bytes", fmt.Sprintf("lib %q canonical %q", core.Trunc(string(o.Data), 60), core.Trunc(string(want), 60)), nontrivial, 1
		}
		if crc {
			min := 4 + (ref.BitsUsed+7)/8
			ok := false
			for l := min; l <= len(post); l++ {
				if rl.CRC16(post[:l]) == hdrCRC {
					ok = true
					break
				}
			}
			if !ok {
				return "close-ok-bad-crc", fmt.Sprintf("header CRC %04x matches no prefix of the stream of at least %d bytes", hdrCRC, min), nontrivial, 1
			}
		}
	}
	verdict = 2
	if o.CloseErr == nil && o.ReadErr == io.EOF {
		verdict = 1
	}
	// a consumer that knows the size takes exactly that many bytes and closes without having seen the
	// end of the stream: a success of Close must be as sound as after a complete read
	if declared > 0 && declared <= int64(limit) {
		o2 := libDecodeStop(stream, crc, []int{readSize}, srcChunk, limit, int(declared))
		if o2.Panic != "" {
			return "panic|" + o2.Site, o2.Panic, true, 0
		}
		if o2.Stopped && o2.CloseErr == nil {
			want := ref.Data
			if int64(len(want)) > declared {
				want = want[:declared]
			}
			switch {
			case ref.Truncated:
				return "close-ok-on-truncated-stream|stopped-at-size", fmt.Sprintf("canonical decoding runs out of bits after %d bytes", len(ref.Data)), nontrivial, 1
			case !bytes.Equal(o2.Data, want):
				return "close-ok-wrong-bytes|stopped-at-size", fmt.Sprintf("lib %q canonical %q", core.Trunc(string(o2.Data), 60), core.Trunc(string(want), 60)), nontrivial, 1
			case crc:
				min, ok := 4+(ref.BitsUsed+7)/8, false
				for l := min; l <= len(post); l++ {
					if rl.CRC16(post[:l]) == hdrCRC {
						ok = true
						break
					}
				}
				if !ok {
					return "close-ok-bad-crc|stopped-at-size", fmt.Sprintf("after reading exactly the %d declared bytes Close returned nil, header CRC %04x matches no prefix of the stream of at least %d bytes", declared, hdrCRC, min), nontrivial, 1
				}
			}
		}
	}
	return "", "", nontrivial, verdict
}

func c08Corpus(thorough bool) [][]byte {
	var ins [][]byte
	add := func(s string) { ins = append(ins, []byte(s)) }
	for _, s := range []string{"", "a", "ab", "abc", "aaaa", "aaaaa", "abcabc", "abcabcabc", "    ", "     x", "a    ", "abababababab",
		"hello world hello world", "the quick brown fox jumps over the lazy dog the quick",
		"\x00\x00\x00\x00", "\xff\xfe\xfd\xff\xfe\xfd\xff\xfe\xfd", "xyzxyzxyzxyzxyzxyzxyzxyzxyzxyzxyzxyzxyzxyzxyzxyzxyzxyzxyzxyzxyzxyz"} {
		add(s)
	}
	ins = append(ins, bytes.Repeat([]byte("a"), 61), bytes.Repeat([]byte("a"), 62), bytes.Repeat([]byte(" "), 63), bytes.Repeat([]byte("ab"), 40),
		lcgBytes(30, 5, 0), lcgBytes(40, 9, 4), corpusText(80), corpusText(150)[70:], periodic(100, 3), periodic(75, 59))
	if thorough {
		ins = append(ins, corpusText(400), lcgBytes(120, 77, 4), periodic(300, 61), bytes.Repeat([]byte("abc "), 50), lcgBytes(64, 3, 0),
			bytes.Repeat([]byte("q"), 200), corpusText(1000)[900:], lcgBytes(50, 1, 2), periodic(130, 60), periodic(64, 4))
	}
	return ins
}

func C08(args []string) {
	r := core.Begin("C08", "model_checking", args)
	if p := replayArg(args); p != "" {
		var f struct {
			Case c08Case `json:"case"`
		}
		readJSON(p, &f)
		var st []byte
		fmt.Sscanf(f.Case.StreamHex, "%x", &st)
		sizes := []int{f.Case.ReadSize}
		if f.Case.ReadSize < 0 { // recorded by the supervisor: the stream in flight when a worker hung; try every read size
			sizes = []int{1, 2, 7, 64, 4096}
			fmt.Printf("stream %x crc=%v: a Read that never returns makes this replay hang as well\n", st, f.Case.CRC)
		}
		for _, k := range sizes {
			c, d, _ := c08Judge(st, f.Case.CRC, k, f.Case.SrcChunk)
			fmt.Printf("stream %x crc=%v read=%d: class=%q %s\n", st, f.Case.CRC, k, c, d)
		}
		return
	}
	readSizes := []int{1, 7, 4096}
	if r.Thorough() {
		readSizes = []int{1, 2, 7, 64, 4096}
	}
	judge := func(family string, st []byte, crc bool, rs []int) {
		r.Add("streams", 1)
		// what is in flight, for the supervisor: a Read that never returns stops the heartbeat
		r.InFlight(append([]byte{map[bool]byte{false: 0, true: 1}[crc]}, st...))
		nt := false
		for _, k := range rs {
			for _, sc := range []int{0, 1} {
				if sc == 1 && k != 1 && k != 4096 {
					continue
				}
				r.Evals.Add(1)
				c, d, n := c08Judge(st, crc, k, sc)
				nt = nt || n
				if c != "" {
					r.Violation("C08|"+c, d, c08Case{family, hexs(st), crc, k, sc})
				}
			}
		}
		if nt {
			r.Nontrivial.Add(1)
		}
	}
	mkStream := func(size int32, body []byte, crcMode int) ([]byte, bool) {
		raw := make([]byte, 4, 4+len(body))
		binary.LittleEndian.PutUint32(raw, uint32(size))
		raw = append(raw, body...)
		switch crcMode {
		case 0:
			return raw, false
		case 1:
			out := make([]byte, 2, 2+len(raw))
			binary.LittleEndian.PutUint16(out, rl.CRC16(raw))
			return append(out, raw...), true
		default:
			out := make([]byte, 2, 2+len(raw))
			binary.LittleEndian.PutUint16(out, rl.CRC16(raw)+1)
			return append(out, raw...), true
		}
	}
	// (a) boundary headers x all bodies of <= 2 bytes, 3 bytes over 16 values
	sizes := []int32{-1 << 31, -1, 0, 1, 2, 3, 59, 60, 61, 255, 65536, 1<<31 - 1}
	var bodies [][]byte
	bodies = append(bodies, nil)
	for a := 0; a < 256; a++ {
		bodies = append(bodies, []byte{byte(a)})
	}
	for a := 0; a < 65536; a++ {
		bodies = append(bodies, []byte{byte(a >> 8), byte(a)})
	}
	v16 := []byte{0x00, 0x01, 0x0f, 0x10, 0x3f, 0x40, 0x7f, 0x80, 0x81, 0xaa, 0x55, 0xc0, 0xe0, 0xf0, 0xfe, 0xff}
	nb3 := 16 * 16 * 16
	if r.Thorough() {
		v16 = append(v16, 0x02, 0x04, 0x08, 0x20, 0x33, 0xcc, 0x99, 0x66)
		nb3 = 24 * 24 * 24
	}
	for i := 0; i < nb3; i++ {
		k := len(v16)
		bodies = append(bodies, []byte{v16[i%k], v16[i/k%k], v16[i/k/k%k]})
	}
	caseA := func(i int) {
		for _, sz := range sizes {
			for mode := 0; mode < 3; mode++ {
				st, crc := mkStream(sz, bodies[i], mode)
				rs := readSizes
				if len(bodies[i]) == 2 && !r.Thorough() {
					rs = []int{1, 4096}
				}
				judge("boundary-header", st, crc, rs)
			}
		}
		if i%7919 == 0 {
			r.Sample(map[string]any{"family": "boundary-header", "body_hex": hexs(bodies[i]), "sizes": sizes})
		}
	}
	// (b) corpus mutations
	corpus := c08Corpus(r.Thorough())
	var valid [][]byte
	for _, in := range corpus {
		valid = append(valid, rl.EncodeB2(in))
	}
	allRS := []int{1, 2, 7, 64, 4096}
	caseB := func(i int) {
		st := valid[i]
		judge("valid", st, true, allRS)
		judge("valid", st[2:], false, allRS)
		for cut := 0; cut < len(st); cut++ {
			judge("truncation", st[:cut], true, allRS)
			if cut >= 2 {
				judge("truncation", st[2:cut], false, allRS)
			}
		}
		for bit := 0; bit < len(st)*8; bit++ {
			m := append([]byte{}, st...)
			m[bit/8] ^= 1 << uint(bit%8)
			judge("bitflip", m, true, allRS)
			if bit >= 16 {
				judge("bitflip", m[2:], false, allRS)
			}
		}
		size := int32(binary.LittleEndian.Uint32(st[2:]))
		for _, ns := range []int32{size + 1, size - 1, size + 2, size - 2, -size, 0, 1<<31 - 1, size / 2, size + 60, -1} {
			m := append([]byte{}, st...)
			binary.LittleEndian.PutUint32(m[2:], uint32(ns))
			judge("size-edit", m, true, allRS) // stale CRC
			binary.LittleEndian.PutUint16(m, rl.CRC16(m[2:]))
			judge("size-edit-resealed", m, true, allRS)
			judge("size-edit", m[2:], false, allRS)
		}
		for _, d := range []uint16{1, 0xffff, 0x100} {
			m := append([]byte{}, st...)
			binary.LittleEndian.PutUint16(m, binary.LittleEndian.Uint16(m)+d)
			judge("crc-edit", m, true, allRS)
		}
		// trailing garbage and duplicated tail
		judge("trailing", append(append([]byte{}, st...), 0), true, allRS)
		judge("trailing", append(append([]byte{}, st...), st...), true, allRS)
		r.Sample(map[string]any{"family": "corpus", "input": core.Trunc(string(corpus[i]), 40), "stream_hex": core.Trunc(hexs(st), 60)})
	}
	// splices prefix(A)+suffix(B), resealed with a matching CRC so that the decoder is reached
	var small [][]byte
	for _, st := range valid {
		if len(st) < 64 {
			small = append(small, st)
		}
	}
	if !r.Thorough() && len(small) > 12 {
		small = small[:12]
	}
	caseC := func(i int) {
		a, b := small[i/len(small)][2:], small[i%len(small)][2:]
		for x := 4; x <= len(a); x++ {
			for y := 4; y <= len(b); y++ {
				raw := append(append([]byte{}, a[:x]...), b[y:]...)
				st := make([]byte, 2, 2+len(raw))
				binary.LittleEndian.PutUint16(st, rl.CRC16(raw))
				st = append(st, raw...)
				judge("splice", st, true, []int{1, 4096})
			}
		}
	}
	// worker processes with a watchdog: a Read that spins inside the decoder (no result at all) cannot be
	// interrupted from inside the process; the supervisor kills the worker, the stream in flight is the
	// violation, and the rest goes on in a fresh worker
	nA, nB, nC := len(bodies), len(valid), len(small)*len(small)
	var hangs atomic.Int64
	r.Sharded(nA+nB+nC, func(i int) {
		switch {
		case i < nA:
			caseA(i)
		case i < nA+nB:
			caseB(i - nA)
		default:
			caseC(i - nA - nB)
		}
	}, core.ShardOpts{Watchdog: 30 * time.Second,
		// a spinning decoder usually spins on many streams: after the first confirmed hang the watchdog
		// is shortened, after three the remaining shares are abandoned (reported as a cap)
		WatchdogNow: func() time.Duration {
			if hangs.Load() > 0 {
				return 8 * time.Second
			}
			return 30 * time.Second
		},
		Abort: func() bool { return hangs.Load() >= 3 },
		OnDeathDetail: func(i int, kind, tail string, detail []byte) {
			if kind == "exit" && core.SiteFromTrace(tail) == "?" {
				core.Infra("worker died outside the code under test while case %d was in flight:\n%s", i, core.Trunc(tail, 1500))
			}
			c := c08Case{Family: "in-flight", ReadSize: -1}
			if len(detail) > 0 {
				c.CRC, c.StreamHex = detail[0] == 1, hexs(detail[1:])
			}
			class := "read-never-returns"
			if kind == "exit" {
				class = "crash|" + core.SiteFromTrace(tail)
			}
			hangs.Add(1)
			r.Violation("C08|"+class, fmt.Sprintf("worker %s while this stream was being read (no heartbeat for 30 s; a case normally takes milliseconds): %s", kind, core.Trunc(tail, 300)), c)
			r.Cap("case %d was abandoned after its worker %sed; the rest of that case's streams were not explored (after three such events the remaining shares are abandoned as well)", i, kind)
		}})
	add := r.Added()
	r.Finish(core.Coverage{
		"states":                        add["streams"],
		"transitions":                   r.Evals.Load(),
		"traces_validated_against_impl": r.Evals.Load(),
		"distinct_nontrivial":           r.Nontrivial.Load(),
		"rule":                          "states = streams fed to the real Reader; one evaluation = one stream x Read buffer size x source chunking, read to a terminal result; non-trivial = the canonical decoder consumes at least one payload bit of the stream",
		"boundary_bodies":               len(bodies), "header_sizes": len(sizes), "corpus_streams": len(valid), "splice_streams": len(small),
	}, []string{
		"livelock is decided deterministically: 64 consecutive (0,nil) results from Read with a non-empty buffer (the Reader is a deterministic function of its state)",
		"Close()==nil is judged against the weakest reading: size equals bytes read, bytes equal the first size bytes of the canonical decoding, header CRC equals CRC-16/XMODEM of some stream prefix covering everything decoding consumed",
	})
}
