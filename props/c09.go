package props

import (
	"bytes"
	"fmt"
	"reflect"
	"strings"
	"time"

	"github.com/la5nta/wl2k-go/fbb"

	"verif/core"
)

func init() { Registry["C09"] = C09 }

// devProduct calls f with every index vector over sizes having at most d non-zero components.
func devProduct(sizes []int, d int, f func(idx []int)) {
	idx := make([]int, len(sizes))
	var rec func(pos, left int)
	rec = func(pos, left int) {
		if pos == len(sizes) {
			f(idx)
			return
		}
		idx[pos] = 0
		rec(pos+1, left)
		if left > 0 {
			for v := 1; v < sizes[pos]; v++ {
				idx[pos] = v
				rec(pos+1, left-1)
			}
			idx[pos] = 0
		}
	}
	rec(0, d)
}

func devProductCount(sizes []int, d int) int {
	n := 0
	devProduct(sizes, d, func([]int) { n++ })
	return n
}

// seqsUpTo returns all sequences of length 0..maxLen over [0,k), shortest first.
func seqsUpTo(k, maxLen int) [][]int {
	out := [][]int{nil}
	prev := [][]int{nil}
	for n := 1; n <= maxLen; n++ {
		var cur [][]int
		for _, p := range prev {
			for v := 0; v < k; v++ {
				cur = append(cur, append(append([]int{}, p...), v))
			}
		}
		out = append(out, cur...)
		prev = cur
	}
	return out
}

type c09Addr struct{ In, Want string }

var c09Addrs = []c09Addr{
	{"N0CALL", "N0CALL"}, {"n0call", "N0CALL"}, {"LA5NTA@winlink.org", "LA5NTA"}, {"la5nta@WINLINK.ORG", "LA5NTA"},
	{"foo@bar.baz", "SMTP:foo@bar.baz"}, {"SMTP:x@y.z", "SMTP:x@y.z"},
	{"sysop@cms.winlink.org", "SMTP:sysop@cms.winlink.org"}, {"Bob@NotWinlink.org", "SMTP:Bob@NotWinlink.org"}, // only the domain winlink.org itself is Winlink
}

var c09Subjects = []string{
	"Hello", "Blåbærsyltetøy", strings.Repeat("s", 75), strings.Repeat("t", 76), "//WL2K P/ urgent", "a=b?c_d", "æ=ø?_å end",
	"Ærlig talt: blåbærsyltetøy på brødskiva er godt", "x",
}

var c09Dates = []time.Time{
	time.Date(2016, 3, 1, 12, 30, 0, 0, time.UTC), time.Unix(0, 0).UTC(), time.Date(1999, 12, 31, 23, 59, 0, 0, time.UTC),
	time.Date(2024, 2, 29, 0, 0, 0, 0, time.UTC), time.Date(9999, 12, 31, 23, 59, 0, 0, time.UTC),
	time.Date(2021, 6, 15, 8, 5, 0, 0, time.FixedZone("x", 5*3600+1800)),
}

var c09Types = []fbb.MsgType{fbb.Private, fbb.Service, fbb.Inquiry, fbb.PositionReport, fbb.Option, fbb.System}

var c09Bodies = []string{
	"Hello world\r\n", "x", "line one\r\nline two\r\n\r\nline four\r\n", "no final newline", "Blåbær æøå ÿ\r\n", strings.Repeat("L", 998) + "\r\n", "",
	"ends with CR\r", "\r\n\r\n",
	strings.Repeat("a line of thirty-two characters\r\n", 2048) + "and a little more than 64 KiB\r\n", // the Body header needs more than 16 bits
}

var c09Datas = [][]byte{
	[]byte("attachment data"), {}, []byte("\r\n"), []byte("\r\n\r\n"), {0, 0, 0}, []byte("data ending in CR\r"), func() []byte {
		b := make([]byte, 256)
		for i := range b {
			b[i] = byte(i)
		}
		return b
	}(), []byte("File: 3 fake\r\n\r\nabc"),
}

var c09NameSchemes = [][]string{
	{"a.txt", "b.txt", "c.txt"},
	{"my file.txt", "two  spaces.bin", "x y z"},
	{"blåbær.txt", "Ærlig ÿ.dat", "æ"},
	{strings.Repeat("n", 255), strings.Repeat("m", 251) + ".txt", "short"},
	{"same", "same", "same"},
	{"q?mark=eq_under.txt", "50% (1).txt", "semi;colon,comma"},
}

type c09Extra struct{ K, V string }

var c09Extras = [][]c09Extra{
	nil, {{"X-P2POnly", "true"}}, {{"X-Custom", "v1"}}, {{"X-Multi", "one"}, {"X-Multi", "two"}}, {{"X-Unread", "true"}, {"X-Filepath", "/tmp/x.b2f"}},
}

var c09Chunks = []int{0, 1, 2, 3, 7, 4096}

type c09Case struct {
	Idx   []int  `json:"component_indices"`
	Desc  string `json:"desc"`
	Lists int    `json:"max_list_len"`
}

type c09Space struct {
	lists [][]int // sequences of address / data indices
	atts  [][]int
	sizes []int
}

func c09NewSpace(maxList int) *c09Space {
	s := &c09Space{}
	// default To = [N0CALL]: put it first
	all := seqsUpTo(len(c09Addrs), maxList)
	s.lists = append([][]int{{0}}, all...)
	s.atts = seqsUpTo(len(c09Datas), maxList)
	s.sizes = []int{len(s.lists), len(all), len(c09Subjects), len(c09Dates), len(c09Types), len(c09Bodies), len(s.atts), len(c09NameSchemes), len(c09Extras), len(c09Chunks)}
	return s
}

// c09Judge builds the message for idx, round-trips it and returns (class, detail).
func (s *c09Space) judge(idx []int) (class, detail string) {
	to := s.lists[idx[0]]
	var cc []int
	if idx[1] > 0 {
		cc = seqsUpToCache(len(c09Addrs))[idx[1]]
	}
	subj, date, typ, body := c09Subjects[idx[2]], c09Dates[idx[3]], c09Types[idx[4]], c09Bodies[idx[5]]
	atts, names, extras, chunk := s.atts[idx[6]], c09NameSchemes[idx[7]], c09Extras[idx[8]], c09Chunks[idx[9]]
	pmsg, site := core.Catch(func() {
		m := fbb.NewMessage(typ, "N0SRC")
		m.Header.Set("Mid", "ABCDEFGHIJKL")
		m.SetDate(date)
		var wantTo, wantCc []string
		for _, a := range to {
			m.AddTo(c09Addrs[a].In)
			wantTo = append(wantTo, c09Addrs[a].Want)
		}
		for _, a := range cc {
			m.AddCc(c09Addrs[a].In)
			wantCc = append(wantCc, c09Addrs[a].Want)
		}
		m.SetSubject(subj)
		if err := m.SetBody(body); err != nil {
			class, detail = "setbody-error", err.Error()
			return
		}
		for i, d := range atts {
			m.AddFile(fbb.NewFile(names[i], append([]byte{}, c09Datas[d]...)))
		}
		for _, e := range extras {
			m.Header.Add(e.K, e.V)
		}
		ser, err := m.Bytes()
		if err != nil {
			class, detail = "serialise-error", err.Error()
			return
		}
		var m2 fbb.Message
		var rd = bytes.NewReader(ser)
		if chunk == 0 {
			err = m2.ReadFrom(rd)
		} else {
			err = m2.ReadFrom(&chunkReader{b: ser, n: chunk})
		}
		if err != nil {
			class, detail = "parse-error", err.Error()
			return
		}
		// accessors before and after the round trip
		for pass, x := range []*fbb.Message{m, &m2} {
			tag := []string{"before", "after"}[pass]
			if got := x.Subject(); got != subj {
				class, detail = "subject-accessor", fmt.Sprintf("%s round trip: got %q want %q", tag, got, subj)
				return
			}
			if got := x.Date(); !got.Equal(date.Truncate(time.Minute)) {
				class, detail = "date-accessor", fmt.Sprintf("%s: got %v want %v", tag, got, date)
				return
			}
			if got := addrStrings(x.To()); !reflect.DeepEqual(got, wantTo) {
				class, detail = "to-accessor", fmt.Sprintf("%s: got %q want %q", tag, got, wantTo)
				return
			}
			if got := addrStrings(x.Cc()); !reflect.DeepEqual(got, wantCc) {
				class, detail = "cc-accessor", fmt.Sprintf("%s: got %q want %q", tag, got, wantCc)
				return
			}
			if got := x.From().String(); got != "N0SRC" {
				class, detail = "from-accessor", fmt.Sprintf("%s: got %q", tag, got)
				return
			}
			if x.Type() != typ {
				class, detail = "type-accessor", fmt.Sprintf("%s: got %q", tag, x.Type())
				return
			}
			fs := x.Files()
			if len(fs) != len(atts) {
				class, detail = "files-count", fmt.Sprintf("%s: got %d want %d", tag, len(fs), len(atts))
				return
			}
			for i, f := range fs {
				if f.Name() != names[i] {
					class, detail = "file-name-accessor", fmt.Sprintf("%s: file %d got %q want %q", tag, i, f.Name(), names[i])
					return
				}
				if !bytes.Equal(f.Data(), c09Datas[atts[i]]) {
					class, detail = "file-data", fmt.Sprintf("%s: file %d (%q) got %d bytes %q want %d bytes", tag, i, names[i], len(f.Data()), core.Trunc(string(f.Data()), 40), len(c09Datas[atts[i]]))
					return
				}
			}
		}
		if !reflect.DeepEqual(map[string][]string(m.Header), map[string][]string(m2.Header)) {
			class, detail = "header-mismatch", fmt.Sprintf("built %v parsed %v", m.Header, m2.Header)
			return
		}
		b1, e1 := m.Body()
		b2, e2 := m2.Body()
		if e1 != nil || e2 != nil || b1 != b2 || m.BodySize() != m2.BodySize() {
			class, detail = "body-mismatch", fmt.Sprintf("built %q (%v) parsed %q (%v)", core.Trunc(b1, 40), e1, core.Trunc(b2, 40), e2)
			return
		}
		ser2, err := m2.Bytes()
		if err != nil {
			class, detail = "reserialise-error", err.Error()
			return
		}
		if !bytes.Equal(ser, ser2) {
			class, detail = "not-canonical", fmt.Sprintf("re-serialised %d bytes, original %d bytes", len(ser2), len(ser))
			return
		}
		// history independence: the same message built in another order, serialised (and proposed) at
		// every intermediate stage, ends in the same bytes - and Write agrees with Bytes
		m3 := fbb.NewMessage(typ, "N0SRC")
		m3.Header.Set("Mid", "ABCDEFGHIJKL")
		m3.Bytes()
		m3.Proposal(fbb.Wl2kProposal)
		if err := m3.SetBody(body); err != nil {
			class, detail = "setbody-error", err.Error()
			return
		}
		m3.Bytes()
		for i, d := range atts {
			m3.AddFile(fbb.NewFile(names[i], append([]byte{}, c09Datas[d]...)))
			m3.Bytes()
		}
		m3.SetDate(date)
		for _, a := range to {
			m3.AddTo(c09Addrs[a].In)
		}
		m3.Proposal(fbb.Wl2kProposal)
		for _, a := range cc {
			m3.AddCc(c09Addrs[a].In)
		}
		m3.SetSubject(subj)
		m3.Bytes()
		for _, e := range extras {
			m3.Header.Add(e.K, e.V)
		}
		ser3, err := m3.Bytes()
		if err != nil || !bytes.Equal(ser3, ser) {
			class, detail = "serialisation-depends-on-history", fmt.Sprintf("built with intermediate serialisations: %d bytes (%v), built at once: %d bytes; subject parsed back %q", len(ser3), err, len(ser), func() string { var x fbb.Message; x.ReadFrom(bytes.NewReader(ser3)); return x.Subject() }())
			return
		}
		var wbuf bytes.Buffer
		if err := m3.Write(&wbuf); err != nil || !bytes.Equal(wbuf.Bytes(), ser) {
			class, detail = "write-and-bytes-disagree", fmt.Sprintf("Write gave %d bytes (%v), Bytes %d", wbuf.Len(), err, len(ser))
		}
	})
	if pmsg != "" {
		return "panic|" + site, pmsg
	}
	return
}

var seqCache = map[int][][]int{}

func seqsUpToCache(k int) [][]int { return seqCache[k] }

func addrStrings(a []fbb.Address) []string {
	var out []string
	for _, x := range a {
		out = append(out, x.String())
	}
	return out
}

func (s *c09Space) describe(idx []int) string {
	return fmt.Sprintf("to=%v cc#%d subj=%q date=%v type=%s body#%d atts=%v names#%d extras#%d chunk=%d",
		s.lists[idx[0]], idx[1], core.Trunc(c09Subjects[idx[2]], 20), c09Dates[idx[3]].Format(time.RFC3339), c09Types[idx[4]], idx[5], s.atts[idx[6]], idx[7], idx[8], c09Chunks[idx[9]])
}

func C09(args []string) {
	r := core.Begin("C09", "model_checking", args)
	r.WatchProgress(watchPeriod()) // the code under test runs in this process: a call that never returns must end the check
	run := func(maxList, dev int, record bool) (n int) {
		seqCache[len(c09Addrs)] = seqsUpTo(len(c09Addrs), maxList)
		s := c09NewSpace(maxList)
		var cases [][]int
		devProduct(s.sizes, dev, func(idx []int) { cases = append(cases, append([]int{}, idx...)) })
		core.ParallelFor(len(cases), func(i int) {
			idx := cases[i]
			r.Evals.Add(1)
			if c, d := s.judge(idx); c != "" {
				r.Violation("C09|"+c, s.describe(idx)+": "+d, c09Case{idx, s.describe(idx), maxList})
			}
			nz := 0
			for _, v := range idx[:9] {
				if v != 0 {
					nz++
				}
			}
			if nz > 0 {
				r.Distinct(fmt.Sprint(idx[:9], maxList))
			}
			if record && i%40009 == 0 {
				r.Sample(s.describe(idx))
			}
		})
		return len(cases)
	}
	if p := replayArg(args); p != "" {
		var f struct {
			Case c09Case `json:"case"`
		}
		readJSON(p, &f)
		seqCache[len(c09Addrs)] = seqsUpTo(len(c09Addrs), f.Case.Lists)
		s := c09NewSpace(f.Case.Lists)
		c, d := s.judge(f.Case.Idx)
		fmt.Printf("%s\nclass=%q %s\n", s.describe(f.Case.Idx), c, d)
		return
	}
	var total int
	if r.Thorough() {
		total += run(3, 2, true)
		total += run(2, 3, false)
	} else {
		total += run(3, 2, true) // every component alone and every pair (lists up to 3 entries)
	}
	r.Finish(core.Coverage{
		"states":                        int64(r.DistinctN()),
		"transitions":                   r.Evals.Load(),
		"traces_validated_against_impl": r.Evals.Load(),
		"distinct_nontrivial":           int64(r.DistinctN()),
		"rule":                          "deviation-bounded product over 10 component alphabets (To, Cc, subject, date, type, body, attachments, names, extra headers, reader chunking); distinct = distinct message component vectors with at least one non-default component",
		"cases":                         total,
	}, []string{
		"excluded (the format gives the code latitude): header values with leading/trailing blanks or CR/LF, names and subjects not representable in ISO-8859-1, literal RFC 2047 encoded-words typed as text",
	})
}
