package props

import (
	"bytes"
	"crypto/sha256"
	"fmt"
	"os"
	"path/filepath"
	"reflect"
	"sort"
	"strings"
	"sync"

	"github.com/la5nta/wl2k-go/fbb"
	"github.com/la5nta/wl2k-go/mailbox"

	"verif/core"
)

func init() { Registry["C10"] = C10 }

// ---- universe ---------------------------------------------------------------------------------

type c10Msg struct {
	MID     string
	To, Cc  []string
	P2POnly bool
}

var c10Out = []c10Msg{
	{MID: "OUTM1", To: []string{"N0AAA"}},
	{MID: "OUTM2", To: []string{"N0AAA", "N0BBB"}},
	{MID: "OUTM3", To: []string{"N0AAA"}, P2POnly: true},
	{MID: "OUTM4", To: []string{"N0AAA"}, Cc: []string{"N0BBB"}, P2POnly: true}, // P2P-only with two recipients: for nobody
	{MID: "OUTM5", Cc: []string{"N0BBB"}},
}
var c10In = []string{"INBM1", "IN_2-m.x"} // the second one with the other characters foreign systems put into a MID

var c10FWs = [][]string{nil, {"N0AAA"}, {"N0BBB"}, {"N0AAA", "N0BBB"}, {"n0aaa"}, {"N0AAA@winlink.org"}, {"SMTP:n0bbb@example.org"}}

func c10BuildOut(m c10Msg) *fbb.Message {
	x := fbb.NewMessage(fbb.Private, "N0SRC")
	x.Header.Set("Mid", m.MID)
	x.SetDate(fixedC10Date)
	for _, t := range m.To {
		x.AddTo(t)
	}
	for _, c := range m.Cc {
		x.AddCc(c)
	}
	x.SetSubject("subject " + m.MID)
	x.SetBody("body " + m.MID + "\r\n")
	if m.P2POnly {
		x.Header.Set("X-P2POnly", "true")
	}
	return x
}

// c10BuildOutV2 is a later posting under the same MID with other content (a re-post of a sent message).
func c10BuildOutV2(m c10Msg) *fbb.Message {
	x := c10BuildOut(m)
	x.SetSubject("second posting of " + m.MID)
	x.SetBody("another body for " + m.MID + ", longer than the first one\r\n")
	return x
}

// c10BuildOutV3 is a third posting of exactly the same serialised size as the first one.
func c10BuildOutV3(m c10Msg) *fbb.Message {
	x := c10BuildOut(m)
	x.SetSubject("third posting"[:len("subject ")] + m.MID)
	x.SetBody("BODY " + m.MID + "\r\n")
	return x
}

// c10Posting tells which posting of a message the bytes are.
func c10Posting(x []byte) string {
	switch {
	case bytes.Contains(x, []byte("second posting")):
		return "[second posting]"
	case bytes.Contains(x, []byte("third po")):
		return "[third posting]"
	}
	return ""
}

func c10BuildIn(mid string) *fbb.Message {
	x := fbb.NewMessage(fbb.Private, "N0REMOTE")
	x.Header.Set("Mid", mid)
	x.SetDate(fixedC10Date)
	x.AddTo("N0SRC")
	x.SetSubject("inbound " + mid)
	x.SetBody("inbound body " + mid + "\r\n")
	return x
}

var fixedC10Date = c09Dates[0]

// stripPrivate serialises a message without the mailbox-private headers named.
func stripPrivate(m *fbb.Message, keys ...string) []byte {
	var cp fbb.Message
	b, _ := m.Bytes()
	cp.ReadFrom(bytes.NewReader(b))
	for _, k := range keys {
		cp.Header.Del(k)
	}
	out, _ := cp.Bytes()
	return out
}

// ---- operations -------------------------------------------------------------------------------

type c10Op struct {
	Kind string `json:"kind"` // AddOut AddOutV2 AddOutV3 Prepare GetOutbound SetSent SetDeferred ProcessInbound ProcessInboundAll GetInboundAnswer SetUnread SetUnreadTwice Restart
	I    int    `json:"i"`    // message / forwarder-list index
	B    bool   `json:"b"`    // SetUnread value / Restart sendOnly
}

func (o c10Op) String() string { return fmt.Sprintf("%s(%d,%v)", o.Kind, o.I, o.B) }

// ---- reference model (DESIGN.md App. E.3) ------------------------------------------------------

type c10Model struct {
	Out, Sent map[string][]byte // MID -> canonical bytes (without X-FilePath / X-Unread)
	In        map[string][]byte
	Unread    map[string]bool
	Deferred  map[string]bool
	Prepared  bool
	SendOnly  bool
}

func newC10Model() *c10Model {
	return &c10Model{Out: map[string][]byte{}, Sent: map[string][]byte{}, In: map[string][]byte{}, Unread: map[string]bool{}, Deferred: map[string]bool{}}
}

func (m *c10Model) enabled() []c10Op {
	var ops []c10Op
	for i, om := range c10Out {
		if _, a := m.Out[om.MID]; !a {
			if _, b := m.Sent[om.MID]; !b {
				ops = append(ops, c10Op{Kind: "AddOut", I: i})
			}
		}
	}
	// the first message posted again, with other content, once it has been sent
	if m.Sent[c10Out[0].MID] != nil && m.Out[c10Out[0].MID] == nil {
		ops = append(ops, c10Op{Kind: "AddOutV2", I: 0}, c10Op{Kind: "AddOutV3", I: 0})
	}
	// ... and an edited draft of the same size posted over the one still in the outbox
	if x := m.Out[c10Out[0].MID]; x != nil && c10Posting(x) != "[third posting]" {
		ops = append(ops, c10Op{Kind: "AddOutV3", I: 0})
	}
	ops = append(ops, c10Op{Kind: "Prepare"}, c10Op{Kind: "Restart", B: false}, c10Op{Kind: "Restart", B: true})
	if m.Prepared {
		for i := range c10FWs {
			ops = append(ops, c10Op{Kind: "GetOutbound", I: i})
		}
		for i, om := range c10Out {
			if _, ok := m.Out[om.MID]; ok {
				ops = append(ops, c10Op{Kind: "SetSent", I: i}, c10Op{Kind: "SetDeferred", I: i})
			}
		}
		for i := range c10In {
			ops = append(ops, c10Op{Kind: "ProcessInbound", I: i}, c10Op{Kind: "GetInboundAnswer", I: i})
		}
		// several messages handed over in one call (the handler's signature is variadic), in both orders
		ops = append(ops, c10Op{Kind: "ProcessInboundAll", I: 0}, c10Op{Kind: "ProcessInboundAll", I: 1})
	}
	for i, mid := range c10In {
		if _, ok := m.In[mid]; ok {
			ops = append(ops, c10Op{Kind: "SetUnread", I: i, B: true}, c10Op{Kind: "SetUnread", I: i, B: false})
			// two marks on the same listed message value (list once, mark !B, then B)
			ops = append(ops, c10Op{Kind: "SetUnreadTwice", I: i, B: true}, c10Op{Kind: "SetUnreadTwice", I: i, B: false})
		}
	}
	return ops
}

// c10InOrder is the list of inbound MIDs in one of two orders.
func c10InOrder(i int) []string {
	out := append([]string{}, c10In...)
	if i == 1 {
		for a, b := 0, len(out)-1; a < b; a, b = a+1, b-1 {
			out[a], out[b] = out[b], out[a]
		}
	}
	return out
}

func normAddr(a string) string { return strings.ToUpper(fbb.AddressFromString(a).String()) }

// apply steps the model and returns the operation's expected observable result.
func (m *c10Model) apply(o c10Op) string {
	switch o.Kind {
	case "AddOut":
		om := c10Out[o.I]
		m.Out[om.MID] = stripPrivate(c10BuildOut(om), "X-Filepath", "X-Unread")
		return "ok"
	case "AddOutV2":
		om := c10Out[o.I]
		m.Out[om.MID] = stripPrivate(c10BuildOutV2(om), "X-Filepath", "X-Unread")
		return "ok"
	case "AddOutV3":
		om := c10Out[o.I]
		m.Out[om.MID] = stripPrivate(c10BuildOutV3(om), "X-Filepath", "X-Unread")
		return "ok"
	case "Prepare":
		m.Deferred = map[string]bool{}
		m.Prepared = true
		return "ok"
	case "Restart":
		m.Deferred = map[string]bool{}
		m.Prepared = false
		m.SendOnly = o.B
		return "ok"
	case "GetOutbound":
		fw := c10FWs[o.I]
		var mids []string
		for _, om := range c10Out {
			if _, ok := m.Out[om.MID]; !ok || m.Deferred[om.MID] {
				continue
			}
			name := om.MID + c10Posting(m.Out[om.MID])
			if len(fw) == 0 {
				if om.P2POnly {
					continue
				}
				mids = append(mids, name)
				continue
			}
			rcv := append(append([]string{}, om.To...), om.Cc...)
			if len(rcv) != 1 {
				continue
			}
			for _, f := range fw {
				if normAddr(f) == normAddr(rcv[0]) {
					mids = append(mids, name)
					break
				}
			}
		}
		sort.Strings(mids)
		return strings.Join(mids, ",")
	case "SetSent":
		mid := c10Out[o.I].MID
		m.Sent[mid] = m.Out[mid]
		delete(m.Out, mid)
		return "ok"
	case "SetDeferred":
		m.Deferred[c10Out[o.I].MID] = true
		return "ok"
	case "ProcessInbound":
		mid := c10In[o.I]
		m.In[mid] = stripPrivate(c10BuildIn(mid), "X-Filepath", "X-Unread")
		m.Unread[mid] = true
		return "ok"
	case "ProcessInboundAll":
		for _, mid := range c10InOrder(o.I) {
			m.In[mid] = stripPrivate(c10BuildIn(mid), "X-Filepath", "X-Unread")
			m.Unread[mid] = true
		}
		return "ok"
	case "SetUnreadTwice":
		m.Unread[c10In[o.I]] = o.B
		return "ok"
	case "GetInboundAnswer":
		switch {
		case m.SendOnly:
			return "="
		case m.In[c10In[o.I]] != nil:
			return "-"
		}
		return "+"
	case "SetUnread":
		m.Unread[c10In[o.I]] = o.B
		return "ok"
	}
	panic("op")
}

func (m *c10Model) key() string {
	var b strings.Builder
	for _, om := range c10Out {
		switch {
		case m.Out[om.MID] != nil && m.Sent[om.MID] != nil:
			b.WriteByte('B')
		case m.Out[om.MID] != nil:
			b.WriteByte('o')
		case m.Sent[om.MID] != nil:
			b.WriteByte('s')
		default:
			b.WriteByte('.')
		}
		if m.Deferred[om.MID] {
			b.WriteByte('d')
		}
		if om.MID == c10Out[0].MID { // which posting lies where
			for _, x := range [][]byte{m.Out[om.MID], m.Sent[om.MID]} {
				b.WriteString("1" + c10Posting(x))
			}
		}
	}
	for _, mid := range c10In {
		switch {
		case m.In[mid] == nil:
			b.WriteByte('.')
		case m.Unread[mid]:
			b.WriteByte('U')
		default:
			b.WriteByte('r')
		}
	}
	fmt.Fprintf(&b, "p%vs%v", m.Prepared, m.SendOnly)
	return b.String()
}

// ---- the real thing ---------------------------------------------------------------------------

type c10Real struct {
	dir string
	h   *mailbox.DirHandler
}

func newC10Real() *c10Real {
	dir, err := os.MkdirTemp(c10Tmp(), "c10")
	if err != nil {
		core.Infra("%v", err)
	}
	// the folders exist before the first session, as after any earlier run of an application
	for _, d := range []string{"in", "out", "sent", "archive"} {
		os.MkdirAll(filepath.Join(dir, d), 0o755)
	}
	return &c10Real{dir: dir, h: mailbox.NewDirHandler(dir, false)}
}

func c10Tmp() string {
	if st, err := os.Stat("/dev/shm"); err == nil && st.IsDir() {
		return "/dev/shm"
	}
	return ""
}

func (r *c10Real) close() { os.RemoveAll(r.dir) }

// apply performs the operation on the real handler and returns its observable result.
func (r *c10Real) apply(o c10Op) (res string) {
	switch o.Kind {
	case "AddOut":
		if err := r.h.AddOut(c10BuildOut(c10Out[o.I])); err != nil {
			return "error: " + err.Error()
		}
		return "ok"
	case "AddOutV2":
		if err := r.h.AddOut(c10BuildOutV2(c10Out[o.I])); err != nil {
			return "error: " + err.Error()
		}
		return "ok"
	case "AddOutV3":
		if err := r.h.AddOut(c10BuildOutV3(c10Out[o.I])); err != nil {
			return "error: " + err.Error()
		}
		return "ok"
	case "Prepare":
		if err := r.h.Prepare(); err != nil {
			return "error: " + err.Error()
		}
		return "ok"
	case "Restart":
		r.h = mailbox.NewDirHandler(r.dir, o.B)
		return "ok"
	case "GetOutbound":
		var fw []fbb.Address
		for _, f := range c10FWs[o.I] {
			fw = append(fw, fbb.AddressFromString(f))
		}
		var mids []string
		for _, m := range r.h.GetOutbound(fw...) {
			mids = append(mids, m.MID())
			for _, k := range []string{"X-P2POnly", "X-FilePath", "X-Unread"} {
				if m.Header.Get(k) != "" {
					mids[len(mids)-1] += "[carries " + k + "]"
				}
			}
			var want, want2, want3 []byte
			for _, om := range c10Out {
				if om.MID == m.MID() {
					want = stripPrivate(c10BuildOut(om), "X-P2POnly", "X-Filepath", "X-Unread")
					want2 = stripPrivate(c10BuildOutV2(om), "X-P2POnly", "X-Filepath", "X-Unread")
					want3 = stripPrivate(c10BuildOutV3(om), "X-P2POnly", "X-Filepath", "X-Unread")
				}
			}
			got := stripPrivate(m, "X-P2POnly", "X-Filepath", "X-Unread")
			switch {
			case bytes.Equal(got, want):
			case bytes.Equal(got, want2):
				mids[len(mids)-1] += "[second posting]"
			case bytes.Equal(got, want3):
				mids[len(mids)-1] += "[third posting]"
			default:
				mids[len(mids)-1] += "[content differs]"
			}
		}
		sort.Strings(mids)
		return strings.Join(mids, ",")
	case "SetSent":
		r.h.SetSent(c10Out[o.I].MID, false)
		return "ok"
	case "SetDeferred":
		r.h.SetDeferred(c10Out[o.I].MID)
		return "ok"
	case "ProcessInbound":
		if err := r.h.ProcessInbound(c10BuildIn(c10In[o.I])); err != nil {
			return "error: " + err.Error()
		}
		return "ok"
	case "ProcessInboundAll":
		var msgs []*fbb.Message
		for _, mid := range c10InOrder(o.I) {
			msgs = append(msgs, c10BuildIn(mid))
		}
		if err := r.h.ProcessInbound(msgs...); err != nil {
			return "error: " + err.Error()
		}
		return "ok"
	case "SetUnreadTwice":
		msgs, err := r.h.Inbox()
		if err != nil {
			return "error: " + err.Error()
		}
		for _, m := range msgs {
			if m.MID() == c10In[o.I] {
				for _, v := range []bool{!o.B, o.B} {
					if err := mailbox.SetUnread(m, v); err != nil {
						return "error: " + err.Error()
					}
				}
				return "ok"
			}
		}
		return "error: message not listed"
	case "GetInboundAnswer":
		p := fbb.NewProposal(c10In[o.I], "t", fbb.Wl2kProposal, []byte("x"))
		return string(rune(r.h.GetInboundAnswer(*p)))
	case "SetUnread":
		msgs, err := r.h.Inbox()
		if err != nil {
			return "error: " + err.Error()
		}
		for _, m := range msgs {
			if m.MID() == c10In[o.I] {
				if err := mailbox.SetUnread(m, o.B); err != nil {
					return "error: " + err.Error()
				}
				return "ok"
			}
		}
		return "error: message not listed"
	}
	panic("op")
}

// observe returns a canonical rendering of everything the observers report.
func (r *c10Real) observe() string {
	var b strings.Builder
	type lister struct {
		name string
		f    func() ([]*fbb.Message, error)
		n    func() int
	}
	for _, l := range []lister{{"in", r.h.Inbox, r.h.InboxCount}, {"out", r.h.Outbox, r.h.OutboxCount}, {"sent", r.h.Sent, r.h.SentCount}, {"archive", r.h.Archive, r.h.ArchiveCount}} {
		msgs, err := l.f()
		fmt.Fprintf(&b, "%s(count=%d):", l.name, l.n())
		if err != nil {
			fmt.Fprintf(&b, "ERROR %v", strings.ReplaceAll(err.Error(), r.dir, "<ROOT>"))
		}
		var items []string
		for _, m := range msgs {
			h := sha256.Sum256(stripPrivate(m, "X-Filepath", "X-Unread"))
			u := ""
			if l.name == "in" {
				u = fmt.Sprintf(" unread=%v", mailbox.IsUnread(m))
			}
			items = append(items, fmt.Sprintf("%s %x%s", m.MID(), h[:6], u))
		}
		sort.Strings(items)
		b.WriteString(strings.Join(items, ";"))
		b.WriteByte('\n')
	}
	return b.String()
}

func (m *c10Model) observe() string {
	var b strings.Builder
	render := func(name string, set map[string][]byte, unread bool) {
		fmt.Fprintf(&b, "%s(count=%d):", name, len(set))
		var items []string
		for mid, data := range set {
			h := sha256.Sum256(data)
			u := ""
			if unread {
				u = fmt.Sprintf(" unread=%v", m.Unread[mid])
			}
			items = append(items, fmt.Sprintf("%s %x%s", mid, h[:6], u))
		}
		sort.Strings(items)
		b.WriteString(strings.Join(items, ";"))
		b.WriteByte('\n')
	}
	render("in", m.In, true)
	render("out", m.Out, false)
	render("sent", m.Sent, false)
	render("archive", map[string][]byte{}, false)
	return b.String()
}

// dirKey hashes the real directory tree (names + contents, temp root normalised).
func (r *c10Real) dirKey() string {
	h := sha256.New()
	filepath.Walk(r.dir, func(p string, info os.FileInfo, err error) error {
		if err != nil {
			return nil
		}
		rel, _ := filepath.Rel(r.dir, p)
		fmt.Fprintf(h, "%s|%v|", rel, info.IsDir())
		if !info.IsDir() {
			b, _ := os.ReadFile(p)
			h.Write(bytes.ReplaceAll(b, []byte(r.dir), []byte("<ROOT>")))
		}
		return nil
	})
	return fmt.Sprintf("%x", h.Sum(nil)[:12])
}

// dumpHidden renders every field of the handler (including unexported ones, maps sorted) so that
// the state key covers the implementation's in-memory state, not only what the model knows about:
// two states are merged only if directory tree, model state and handler memory all agree.
func dumpHidden(v reflect.Value) string {
	switch v.Kind() {
	case reflect.Ptr, reflect.Interface:
		if v.IsNil() {
			return "nil"
		}
		return dumpHidden(v.Elem())
	case reflect.Struct:
		var parts []string
		for i := 0; i < v.NumField(); i++ {
			if v.Type().Field(i).Name == "MBoxPath" {
				continue // the temp directory differs per replay
			}
			parts = append(parts, v.Type().Field(i).Name+"="+dumpHidden(v.Field(i)))
		}
		return "{" + strings.Join(parts, ",") + "}"
	case reflect.Map:
		var parts []string
		it := v.MapRange()
		for it.Next() {
			parts = append(parts, dumpHidden(it.Key())+":"+dumpHidden(it.Value()))
		}
		sort.Strings(parts)
		return "map[" + strings.Join(parts, ",") + "]"
	case reflect.Slice, reflect.Array:
		var parts []string
		for i := 0; i < v.Len(); i++ {
			parts = append(parts, dumpHidden(v.Index(i)))
		}
		return "[" + strings.Join(parts, ",") + "]"
	case reflect.String:
		return v.String()
	case reflect.Bool:
		return fmt.Sprint(v.Bool())
	case reflect.Int, reflect.Int8, reflect.Int16, reflect.Int32, reflect.Int64:
		return fmt.Sprint(v.Int())
	case reflect.Uint, reflect.Uint8, reflect.Uint16, reflect.Uint32, reflect.Uint64:
		return fmt.Sprint(v.Uint())
	}
	return v.Kind().String()
}

type c10Case struct {
	Path []c10Op `json:"path"`
	Op   c10Op   `json:"op"`
}

// c10Replay runs path then op on a fresh handler and model in lockstep. Returns class/detail of the
// first disagreement on the LAST operation (earlier ones were judged when they were the last).
func c10Replay(path []c10Op, op c10Op) (class, detail, key string, enabledNext []c10Op, changed bool) {
	real := newC10Real()
	defer real.close()
	model := newC10Model()
	for _, o := range path {
		real.apply(o)
		model.apply(o)
	}
	before := model.key()
	var got, want string
	if p, site := core.Catch(func() { got = real.apply(op) }); p != "" {
		return "panic|" + site, fmt.Sprintf("%v: %s", op, p), "", nil, false
	}
	want = model.apply(op)
	if got != want {
		cl := "result-mismatch|" + op.Kind
		if strings.Contains(got, "[carries ") {
			cl = "private-header-leak|" + got[strings.Index(got, "[carries ")+9:strings.Index(got, "]")]
			if len(c10FWs[op.I]) > 0 {
				cl += "|p2p-path"
			} else {
				cl += "|cms-path"
			}
		}
		return cl, fmt.Sprintf("%v returned %q, model says %q", op, got, want), "", nil, false
	}
	var ro string
	if p, site := core.Catch(func() { ro = real.observe() }); p != "" {
		return "panic-in-observer|" + site, p, "", nil, false
	}
	if mo := model.observe(); ro != mo {
		return "observer-mismatch|after-" + op.Kind, fmt.Sprintf("after %v the folders are\n%s\nbut the model says\n%s", op, ro, mo), "", nil, false
	}
	after := model.key()
	return "", "", after + "#" + real.dirKey() + "#" + dumpHidden(reflect.ValueOf(real.h)), model.enabled(), after != before || got != "ok"
}

func C10(args []string) {
	r := core.Begin("C10", "model_checking", args)
	r.WatchProgress(watchPeriod()) // the code under test runs in this process: a call that never returns must end the check
	if p := replayArg(args); p != "" {
		var f struct {
			Case c10Case `json:"case"`
		}
		readJSON(p, &f)
		c, d, k, _, _ := c10Replay(f.Case.Path, f.Case.Op)
		fmt.Printf("path %v op %v: class=%q %s key=%s\n", f.Case.Path, f.Case.Op, c, d, k)
		return
	}
	maxDepth := 8
	if r.Thorough() {
		maxDepth = 12
	}
	type node struct {
		path []c10Op
		ops  []c10Op
	}
	seen := map[string]bool{"<init>": true}
	frontier := []node{{nil, newC10Model().enabled()}}
	depth := 0
	fix := false
	for ; depth < maxDepth && len(frontier) > 0; depth++ {
		type job struct {
			n  int
			op c10Op
		}
		var jobs []job
		for i, n := range frontier {
			for _, op := range n.ops {
				jobs = append(jobs, job{i, op})
			}
		}
		var mu sync.Mutex
		var next []node
		results := make([]struct {
			key  string
			ops  []c10Op
			path []c10Op
			ok   bool
		}, len(jobs))
		core.ParallelFor(len(jobs), func(j int) {
			n := frontier[jobs[j].n]
			class, detail, key, ops, changed := c10Replay(n.path, jobs[j].op)
			r.Evals.Add(1)
			if changed {
				r.Nontrivial.Add(1)
			}
			if class != "" {
				r.Violation("C10|"+class, fmt.Sprintf("after %v: %s", n.path, detail), c10Case{n.path, jobs[j].op})
				return
			}
			results[j].key, results[j].ops, results[j].ok = key, ops, true
			results[j].path = append(append([]c10Op{}, n.path...), jobs[j].op)
			if j%5003 == 0 {
				r.Sample(map[string]any{"path": fmt.Sprint(results[j].path)})
			}
		})
		for _, res := range results { // deterministic order
			if res.ok && !seen[res.key] {
				mu.Lock()
				seen[res.key] = true
				next = append(next, node{res.path, res.ops})
				mu.Unlock()
			}
		}
		frontier = next
		if len(frontier) == 0 {
			fix = true
		}
	}
	if !fix {
		r.Note("depth bound %d reached with %d states on the frontier (not a fixpoint)", maxDepth, len(frontier))
	}
	r.Finish(core.Coverage{
		"states":                        int64(len(seen)),
		"transitions":                   r.Evals.Load(),
		"traces_validated_against_impl": r.Evals.Load(),
		"distinct_nontrivial":           r.Nontrivial.Load(),
		"rule":                          "BFS over states of the real DirHandler (canonical key = model state + hash of the directory tree); a transition replays the shortest path on a fresh directory and applies one operation to the real handler and to the reference model in lockstep, comparing the operation's result and all folder listings/counts; non-trivial = the operation changed the state or returned a non-empty result (each (state, operation) pair is distinct)",
		"depth":                         depth, "fixpoint": fix, "exhaustive": true,
	}, []string{
		"driver respects the documented contract: session operations only after Prepare on that instance; SetSent/SetDeferred only for MIDs in the outbox; AddOut only for MIDs in neither outbox nor sent",
		"the mailbox folders exist before the first operation",
	})
}
