package props

import (
	"fmt"
	"os"
	"path/filepath"
	"strings"

	"github.com/la5nta/wl2k-go/fbb"
	"github.com/la5nta/wl2k-go/mailbox"

	"verif/core"
	"verif/link"
	"verif/ref/b2f"
	"verif/sandbox"
	"verif/sess"
)

func init() { Registry["C12session"] = C12Session }

type c12sCase struct {
	Proposed  string `json:"proposed_mid"`
	HeaderMid string `json:"mid_header"`
	Extra     string `json:"extra_header,omitempty"`
	PeerRole  string `json:"peer_role"`
	SendOnly  bool   `json:"send_only,omitempty"` // the handler was created send-only: every proposal is deferred
}

func c12sTokens() []string {
	toks := []string{"a", "/", "..", ".", "\\"}
	var out []string
	var rec func(cur string, n int)
	rec = func(cur string, n int) {
		if n > 0 && len(cur) <= 12 {
			out = append(out, cur)
		}
		if n == 5 {
			return
		}
		for _, t := range toks {
			rec(cur+t, n+1)
		}
	}
	rec("", 0)
	return out
}

// c12sTmp is the process's temporary directory for the session cases (TMPDIR points there): deep inside
// a tree of its own, so that an identifier with dot-dot segments appended to it still lands inside
// what is watched. Nothing in the library has any business there.
var c12sTmp, c12sTmpRoot string

func c12sSetupTmp() {
	root, err := os.MkdirTemp(sandbox.TmpBase(), "c12tmp")
	if err != nil {
		core.Infra("%v", err)
	}
	c12sTmpRoot, c12sTmp = root, filepath.Join(root, "deep", "a", "b", "tmp")
	if err := os.MkdirAll(c12sTmp, 0o755); err != nil {
		core.Infra("%v", err)
	}
	os.Setenv("TMPDIR", c12sTmp)
}

// c12sStray lists (and removes) whatever appeared under the temporary tree.
func c12sStray() string {
	var found []string
	filepath.Walk(c12sTmpRoot, func(p string, info os.FileInfo, err error) error {
		if err != nil {
			return nil
		}
		rel, _ := filepath.Rel(c12sTmpRoot, p)
		switch rel {
		case ".", "deep", "deep/a", "deep/a/b", "deep/a/b/tmp":
			return nil
		}
		found = append(found, rel)
		return nil
	})
	for i := len(found) - 1; i >= 0; i-- {
		os.RemoveAll(filepath.Join(c12sTmpRoot, found[i]))
	}
	return strings.Join(found, ", ")
}

func c12sRun(c c12sCase) (class, detail string) {
	sb, err := sandbox.New(sandbox.TmpBase())
	if err != nil {
		core.Infra("%v", err)
	}
	defer sb.Close()
	h := mailbox.NewDirHandler(sb.MBox, c.SendOnly)
	h.Prepare()
	before := sandbox.Snapshot(sb.Root, sb.MBox)
	// the remote's message: well formed, but its Mid header is the hostile string
	m := sess.MsgSpec{MID: "PLACEHOLDER1"}.Build("N0PEER")
	raw := string(sess.MsgBytes(m))
	raw = strings.Replace(raw, "Mid: PLACEHOLDER1\r\n", "Mid: "+c.HeaderMid+"\r\n"+func() string {
		if c.Extra != "" {
			return strings.ReplaceAll(c.Extra, "<MBOX>", sb.MBox) + "\r\n"
		}
		return ""
	}(), 1)
	peer := &b2f.Peer{Master: c.PeerRole == "master", MyCall: "N0PEER", Other: "N0LIB", Outbox: []b2f.Msg{{MID: c.Proposed, Subject: "s", Data: []byte(raw)}}}
	l := link.New(link.Plan{Cut: link.NoCut(), FailAfter: -1})
	var res sess.Result
	l.Run(func(cn *link.Conn) {
		res = sess.RunScriptConn(sess.Station{Call: "N0LIB", Locator: "JO39EQ", Master: c.PeerRole != "master", Handler: h}, "N0PEER", cn)
	}, func(cn *link.Conn) {
		defer func() {
			if e := recover(); e != nil {
				cn.Close()
			}
		}()
		peer.Run(cn)
	})
	_ = res // errors and panics on hostile identifiers are C03's business
	if stray := c12sStray(); stray != "" {
		// (cases run side by side in this process: the entry may stem from a neighbour - on a tree that
		// keeps the property nothing ever appears here)
		return "escape|session|created|in the temporary directory", "files appeared under the temporary directory tree: " + stray
	}
	after := sandbox.Snapshot(sb.Root, sb.MBox)
	if d := sandbox.Diff(before, after); d != "" {
		via := "mid-header"
		if c.Extra != "" {
			via = "header " + strings.SplitN(c.Extra, ":", 2)[0]
		}
		kind := "created"
		if strings.Contains(d, "modified") {
			kind = "modified"
		}
		if strings.Contains(d, "deleted") {
			kind = "deleted"
		}
		if c.Proposed != c.HeaderMid && c.HeaderMid == "NORMALMID001" {
			via = "proposal-mid"
		}
		return "escape|session|" + kind + "|via " + via, strings.ReplaceAll(d, sb.Root, "<SANDBOX>")
	}
	return "", ""
}

// C12Session is the session path of C12 (run as a foreign worker of the C12 check).
func C12Session(args []string) {
	r := core.Begin("C12", "model_checking", args)
	if p := replayArg(args); p != "" {
		var f struct {
			Case c12sCase `json:"case"`
		}
		readJSON(p, &f)
		c, d := c12sRun(f.Case)
		fmt.Printf("%+v: class=%q %s\n", f.Case, c, d)
		return
	}
	c12sSetupTmp()
	var cases []c12sCase
	hostile := c12sTokens()
	for _, mid := range hostile {
		cases = append(cases, c12sCase{Proposed: mid, HeaderMid: mid, PeerRole: "master"})
	}
	// the proposal carries the hostile identifier, the message itself a valid Mid
	for _, mid := range hostile[:600] {
		cases = append(cases, c12sCase{Proposed: mid, HeaderMid: "NORMALMID001", PeerRole: "master"})
	}
	for _, mid := range []string{"../../a", "../../aa", "../../../a", "../../pwn", "..\\..\\a", "a/../../../a", "../../outside/target"} {
		cases = append(cases, c12sCase{Proposed: mid, HeaderMid: "NORMALMID001", PeerRole: "master"}, c12sCase{Proposed: mid, HeaderMid: "NORMALMID001", PeerRole: "slave"}, c12sCase{Proposed: mid, HeaderMid: mid, PeerRole: "slave"})
	}
	// a send-only handler defers every proposal: whatever it notes about them stays inside the mailbox
	for _, mid := range append(append([]string{}, hostile[:600]...), "../../a", "../../aa", "../../../a", "../../pwn", "..\\..\\a", "a/../../../a", "../../outside/target", "../../outside/in/target") {
		cases = append(cases, c12sCase{Proposed: mid, HeaderMid: "NORMALMID001", PeerRole: "master", SendOnly: true}, c12sCase{Proposed: mid, HeaderMid: "NORMALMID001", PeerRole: "slave", SendOnly: true})
	}
	specials := []string{"", strings.Repeat("a", 300), "ü", "/etc/x", "~", "a/../../../../../../x", "..\\..\\pwn", "../../../../../../../../tmp/c12-absolute-escape", "a\x00b", "../\x00"}
	for _, hm := range append(append([]string{}, hostile[:600]...), specials...) {
		cases = append(cases, c12sCase{Proposed: "NORMALMID001", HeaderMid: hm, PeerRole: "master"}, c12sCase{Proposed: "NORMALMID001", HeaderMid: hm, PeerRole: "slave"})
	}
	for _, hd := range []string{"X-FilePath: <MBOX>/../outside/target.b2f", "X-FilePath: <MBOX>/in/../../outside/new.b2f", "X-FilePath: <MBOX>backup/x.b2f", "X-FilePath: ../../evil.b2f", "X-Filepath: <MBOX>/../decoy.txt", "X-Unread: ../../x"} {
		cases = append(cases, c12sCase{Proposed: "NORMALMID001", HeaderMid: "NORMALMID001", Extra: hd, PeerRole: "master"})
	}
	core.ParallelFor(len(cases), func(i int) {
		c := cases[i]
		class, detail := c12sRun(c)
		r.Evals.Add(1)
		r.Nontrivial.Add(1)
		r.Distinct("s" + fmt.Sprint(i))
		r.Add("session_cases", 1)
		if class != "" {
			r.Violation("C12|"+class, fmt.Sprintf("proposed %q, Mid header %q %s: %s", c.Proposed, c.HeaderMid, c.Extra, detail), c)
		}
		if i%1999 == 0 {
			r.Sample(c)
		}
	})
	os.RemoveAll(c12sTmpRoot)
	r.Finish(nil, nil)
}

var _ = fbb.Accept
