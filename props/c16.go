package props

import (
	"bytes"
	"errors"
	"fmt"
	"strings"
	"sync/atomic"

	"github.com/la5nta/wl2k-go/fbb"

	"verif/core"
	"verif/link"
	"verif/ref/secure"
	"verif/sess"
)

func init() {
	Registry["C16"] = C16
	extraSelfTests = append(extraSelfTests, func() int {
		if r, _ := secure.Response("23753528", "FOOBAR"); r != "72768415" {
			core.Infra("ref secure-login does not reproduce the published vector: %s", r)
		}
		return 1
	})
}

type c16Case struct {
	Challenge string `json:"challenge"`
	Password  int    `json:"password_index"`
	Aux       int    `json:"aux_config"`
	Callback  int    `json:"callback"`                  // 0 registered, 1 nil, 2 error for the main address, 3 error together with a non-empty string
	Prior     string `json:"prior_challenge,omitempty"` // an earlier attempt on the same Session got this challenge, then the link dropped
	Order     int    `json:"line_order,omitempty"`      // 0: SID, ;PQ, prompt; 1: ;PQ, SID, prompt; 2: SID, ;PQ, SID, prompt; 3: SID, comment, ;PQ, comment, prompt
}

var c16Passwords = []string{"FOOBAR", "p~w", "Z", "0123456789abcdefghijABCDEFGHIJ!#$%&()*+", "pÆssørd", "my pass word",
	// any bytes without CR: white space at either end belongs to the password
	"FooBar ", " lead", "tab\t", "\nnl", "\u00a0nbsp\u0085", " ", "\v\f"}

// aux configurations: list of (address, kind) with kind 0 = password known, 1 = unknown (empty), 2 = callback error, 3 = known and consisting of one space, 4 = the own call
type c16Aux struct {
	Addr string
	Kind int
}

var c16AuxCfgs = [][]c16Aux{
	nil,
	{{"AUX1", 0}}, {{"AUX1", 1}}, {{"AUX1", 2}},
	{{"AUX1", 0}, {"AUX2-5", 0}}, {{"AUX1", 0}, {"AUX2-5", 1}}, {{"AUX1", 1}, {"AUX2-5", 0}}, {{"AUX1", 0}, {"AUX2-5", 2}}, {{"AUX1", 2}, {"AUX2-5", 0}}, {{"AUX1", 2}, {"AUX2-5", 1}},
	{{"AUX1", 0}, {"AUX2-5", 2}, {"AUX3", 0}}, {{"AUX1", 1}, {"AUX2-5", 0}, {"AUX3", 2}},
	{{"AUX1", 3}}, {{"AUX1", 0}, {"AUX2-5", 3}},
	// the session's own call registered as an auxiliary address too (kind 4: its password is the main one)
	{{"AUX1", 0}, {"N0LOGIN", 4}}, {{"AUX1", 1}, {"N0LOGIN", 4}, {"AUX3", 0}},
}

func auxPassword(i int) string {
	if i == 1 {
		return "auxPW~1~ " // trailing space
	}
	return fmt.Sprintf("auxPW~%d~", i)
}

// c16Judge returns (class, detail, digest).
func c16Judge(c c16Case) (string, string, [16]byte) {
	pw := c16Passwords[c.Password]
	auxs := c16AuxCfgs[c.Aux]
	const sid = "[WL2K-5.0-B2FWIHJM$]\r"
	pq := ";PQ: " + c.Challenge + "\r"
	hs := map[int]string{0: sid + pq, 1: pq + sid, 2: sid + pq + sid, 3: sid + "; a comment line\r" + pq + ";FW: CMS\r"}[c.Order]
	script := &link.Script{In: []byte(hs + "CMS via test >\rFQ\r")}
	st := sess.Station{Call: "N0LOGIN", Locator: "JO39EQ", Configure: func(s *fbb.Session) {
		for _, a := range auxs {
			s.AddAuxiliaryAddress(fbb.AddressFromString(a.Addr))
		}
		switch c.Callback {
		case 0, 2, 3:
			s.SetSecureLoginHandleFunc(func(addr fbb.Address) (string, error) {
				if addr.Addr == "N0LOGIN" {
					if c.Callback == 2 {
						return "", errors.New("no password available")
					}
					if c.Callback == 3 { // an aborted prompt: what was typed so far comes with the error
						return "Tr0ub", errors.New("prompt aborted")
					}
					return pw, nil
				}
				for i, a := range auxs {
					if a.Addr == addr.Addr {
						switch a.Kind {
						case 0:
							return auxPassword(i), nil
						case 1:
							return "", nil
						case 3:
							return " ", nil
						default:
							return "", errors.New("unknown address")
						}
					}
				}
				return "", errors.New("unexpected address " + addr.String())
			})
		}
		if c.Prior != "" { // the first attempt: handshake with another challenge, then the link is gone
			s.Exchange(&link.Script{In: []byte(sid + ";PQ: " + c.Prior + "\r" + "CMS via test >\r")})
		}
	}}
	res := sess.RunScript(st, "CMS", script)
	want, sum := secure.Response(c.Challenge, pw)
	if res.Panic != "" {
		return "panic|" + sess.PanicSiteOf(res.Stack), res.Panic, sum
	}
	out := script.Out
	// the password never appears on the wire
	for i, secret := range append([]string{pw}, func() []string {
		var s []string
		for i := range auxs {
			s = append(s, auxPassword(i))
		}
		return s
	}()...) {
		if strings.TrimSpace(secret) == "" {
			continue // a password of white space only cannot be told from the separators
		}
		if (i == 0 && c.Callback == 0 || i > 0 && c.Callback != 1) && bytes.Contains(out, []byte(secret)) {
			return "password-on-the-wire", fmt.Sprintf("%q", out), sum
		}
	}
	if c.Callback != 0 {
		if res.Err == nil {
			return "handshake-succeeds-without-password", fmt.Sprintf("callback mode %d, wrote %q", c.Callback, out), sum
		}
		if bytes.Contains(out, []byte(";PR:")) {
			return "pr-sent-without-password", fmt.Sprintf("%q", out), sum
		}
		return "", "", sum
	}
	if res.Err != nil {
		return "exchange-error", res.Err.Error(), sum
	}
	lines := strings.Split(string(out), "\r")
	var pr, fw string
	for _, ln := range lines {
		if strings.HasPrefix(ln, ";PR:") {
			if pr != "" {
				return "two-pr-lines", fmt.Sprintf("%q", out), sum
			}
			pr = ln
		}
		if strings.HasPrefix(ln, ";FW:") {
			fw = ln
		}
	}
	if pr != ";PR: "+want {
		return "wrong-response", fmt.Sprintf("challenge %q password #%d: got %q want %q", c.Challenge, c.Password, pr, ";PR: "+want), sum
	}
	wantFW := ";FW: N0LOGIN"
	for i, a := range auxs {
		if a.Kind == 0 {
			r, _ := secure.Response(c.Challenge, auxPassword(i))
			wantFW += " " + a.Addr + "|" + r
		} else if a.Kind == 3 {
			r, _ := secure.Response(c.Challenge, " ")
			wantFW += " " + a.Addr + "|" + r
		} else if a.Kind == 4 {
			r, _ := secure.Response(c.Challenge, pw)
			wantFW += " " + a.Addr + "|" + r
		} else {
			wantFW += " " + a.Addr
		}
	}
	if fw != wantFW {
		return "wrong-fw-line", fmt.Sprintf("got %q want %q", fw, wantFW), sum
	}
	return "", "", sum
}

func C16(args []string) {
	r := core.Begin("C16", "model_checking", args)
	r.WatchProgress(watchPeriod()) // the code under test runs in this process: a call that never returns must end the check
	if p := replayArg(args); p != "" {
		var f struct {
			Case c16Case `json:"case"`
		}
		readJSON(p, &f)
		c, d, _ := c16Judge(f.Case)
		fmt.Printf("%+v: class=%q %s\n", f.Case, c, d)
		return
	}
	var challenges []string
	maxLen := 5
	if r.Thorough() {
		maxLen = 6
	}
	for n := 1; n <= maxLen; n++ {
		for i := 0; i < countStrings(10, n); i++ {
			challenges = append(challenges, fmt.Sprintf("%0*d", n, i))
		}
	}
	nDec := len(challenges)
	for d := 0; d < 10; d++ {
		challenges = append(challenges, strings.Repeat(fmt.Sprint(d), 8))
	}
	challenges = append(challenges, "23753528", strings.Repeat("1234567890abcdef", 4), "ABCDEF", "a b", "12:34", "9"+strings.Repeat("0", 30))
	// every string of up to 3 symbols over an alphabet that contains the characters of the ";PQ: " prefix
	// and the protocol's separators (white space at either end excluded: the line reader trims it)
	const sym = "07AQP;: |>"
	for n := 1; n <= 3; n++ {
		for i := 0; i < countStrings(len(sym), n); i++ {
			b := make([]byte, n)
			for k, v := n-1, i; k >= 0; k, v = k-1, v/len(sym) {
				b[k] = sym[v%len(sym)]
			}
			if b[0] == ' ' || b[n-1] == ' ' {
				continue
			}
			challenges = append(challenges, string(b))
		}
	}
	challenges = append(challenges, "Q8471203", "PQ123456", ":1234567", ";PQ: 1234", "QPQP")
	var classLeadingZero, classBig, class40, class80 atomic.Int64
	judge := func(c c16Case) {
		r.Evals.Add(1)
		class, detail, sum := c16Judge(c)
		if class != "" {
			r.Violation("C16|"+class, detail, c)
		}
		v := uint32(sum[0]) | uint32(sum[1])<<8 | uint32(sum[2])<<16 | uint32(sum[3]&0x3f)<<24
		if v%100000000 < 10000000 {
			classLeadingZero.Add(1)
		}
		if v >= 100000000 {
			classBig.Add(1)
		}
		if sum[3] >= 0x40 {
			class40.Add(1)
		}
		if sum[3] >= 0x80 {
			class80.Add(1)
		}
	}
	core.ParallelFor(len(challenges), func(i int) {
		for p := range c16Passwords {
			judge(c16Case{Challenge: challenges[i], Password: p})
		}
		// line order of the remote's handshake
		if i%7 == 0 || i >= nDec {
			for ord := 1; ord <= 3; ord++ {
				judge(c16Case{Challenge: challenges[i], Password: i % len(c16Passwords), Order: ord})
				judge(c16Case{Challenge: challenges[i], Password: i % len(c16Passwords), Aux: 4, Order: ord})
			}
		}
		// aux and callback dimensions on a fixed sub-lattice of the challenges plus all special ones
		if i%50 == 0 || i >= nDec {
			for a := 1; a < len(c16AuxCfgs); a++ {
				judge(c16Case{Challenge: challenges[i], Password: i % len(c16Passwords), Aux: a})
			}
			for _, a := range []int{0, 4, 5} { // a second attempt on the same Session is answered for its own challenge
				judge(c16Case{Challenge: challenges[i], Password: i % len(c16Passwords), Aux: a, Prior: "91700346"})
			}
			for cb := 1; cb <= 3; cb++ {
				for _, a := range []int{0, 1, 5} {
					judge(c16Case{Challenge: challenges[i], Password: i % len(c16Passwords), Aux: a, Callback: cb})
				}
			}
		}
		if i%20000 == 0 {
			r.Sample(map[string]any{"challenge": challenges[i], "passwords": len(c16Passwords)})
		}
	})
	n := r.Evals.Load()
	r.Finish(core.Coverage{
		"states":                        int64(len(challenges)),
		"transitions":                   n,
		"traces_validated_against_impl": n,
		"distinct_nontrivial":           int64(len(challenges) * len(c16Passwords)),
		"rule":                          "one evaluation = one real slave Session handshake against a scripted master issuing ;PQ; distinct = (challenge, password) pairs; every one carries a challenge (non-trivial)",
		"challenges":                    len(challenges), "passwords": len(c16Passwords), "aux_configs": len(c16AuxCfgs),
		"digest_class_leading_zero": classLeadingZero.Load(), "digest_class_value_ge_1e8": classBig.Load(), "digest_class_byte3_ge_0x40": class40.Load(), "digest_class_byte3_ge_0x80": class80.Load(),
	}, []string{"the salt is the published Winlink salt, copied once into the reference", "excluded: challenges with leading/trailing whitespace (the line reader trims), passwords containing CR"})
}
