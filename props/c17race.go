package props

import (
	"fmt"
	"os/exec"
	"regexp"
	"strings"

	"verif/core"
)

func init() { Registry["C17race"] = C17Race }

var raceFrame = regexp.MustCompile(`github\.com/la5nta/wl2k-go/([\w/]+\.[\w\(\)\*\.]+?)\(\)`)

// C17Race is the free-running complement of C17 (run as a foreign worker of the C17 check): the
// harness bodies of verif/racecheck on the real runtime under Go's race detector. Every "DATA RACE"
// report is a violation (the detector has no false positives); silence decides nothing. If the
// detector cannot be built here the pass is skipped with a note - it is never an alarm by itself.
func C17Race(args []string) {
	r := core.Begin("C17", "model_checking", args)
	rounds := 1
	if r.Thorough() {
		rounds = 12
	}
	cmd := exec.Command("go", "test", "-race", "-count=1", "-vet=off", "-timeout", "20m", "./racecheck/")
	cmd.Dir = core.Root
	cmd.Env = append(core.GoEnv(), fmt.Sprintf("RACECHECK_ROUNDS=%d", rounds), "GOMAXPROCS=8")
	out, err := cmd.CombinedOutput()
	text := string(out)
	blocks := strings.Split(text, "WARNING: DATA RACE")
	if len(blocks) == 1 {
		if err != nil && !strings.Contains(text, "--- FAIL") {
			r.Note("free-running race pass unavailable here (%v): %s", err, core.Trunc(text, 300))
			r.Add("free_running_pass_skipped", 1)
		} else {
			r.Add("free_running_exchanges", int64(rounds*c17RaceScenarios))
			r.Evals.Add(int64(rounds * c17RaceScenarios))
		}
		r.Finish(nil, nil)
		return
	}
	r.Add("free_running_exchanges", int64(rounds*c17RaceScenarios))
	for _, b := range blocks[1:] {
		if i := strings.Index(b, "=================="); i >= 0 {
			b = b[:i]
		}
		site := "?"
		if m := raceFrame.FindStringSubmatch(b); m != nil {
			site = m[1]
		}
		r.Violation("C17|data-race|free-running|"+site, "Go race detector, free-running exchange on the real runtime:\n"+core.Trunc(b, 1800), map[string]any{"report": core.Trunc(b, 4000), "how": "cd /verif && GOFLAGS=-mod=mod GOPROXY=off go test -race -count=1 -vet=off ./racecheck/"})
	}
	r.Finish(nil, nil)
}

// c17RaceScenarios is the number of exchanges per round in racecheck.TestC17FreeRunning.
const c17RaceScenarios = 78
