package props

import (
	"bytes"
	"fmt"
	"strconv"
	"strings"
	"sync/atomic"

	"github.com/la5nta/wl2k-go/fbb"

	"verif/core"
)

func init() { Registry["C18"] = C18 }

type c18Tok struct {
	Name string
	Text string
	Big  bool
}

func c18Alphabet() []c18Tok {
	a := func(n int) string { return strings.Repeat("a", n) }
	return []c18Tok{
		{"a", "a", false}, {"é", "é", false}, {"ÿ", "ÿ", false},
		// Ã followed by © is C3 A9 in Latin-1: bytes that also read as well-formed UTF-8 (for é)
		{"Ã", "Ã", false}, {"©", "©", false}, {"LF", "\n", false}, {"CRLF", "\r\n", false}, {"CR", "\r", false}, {"SP", " ", false}, {"%", "%", false},
		{"a*996", a(996), false}, {"a*997", a(997), false}, {"a*998", a(998), false}, {"a*999", a(999), false},
		{"a*997+é", a(997) + "é", false}, {"é*499", strings.Repeat("é", 499), false}, {"a*998+SP", a(998) + " ", false}, {"a*997+SP", a(997) + " ", false},
		{"a*65534", a(65534), true}, {"a*65536", a(65536), true}, {"a*70000", a(70000), true},
	}
}

type c18Case struct {
	Tokens  []string `json:"tokens"`
	Setter  string   `json:"setter"`
	TextLen int      `json:"text_len"`
	// boundary sweep: one two-byte character at byte offset Pos of an otherwise ASCII text of
	// Size bytes made of CRLF-terminated lines of Line bytes (a text that is already normalised,
	// so that the offset is the offset any block-wise processing stage sees)
	Pos  int `json:"pos,omitempty"`
	Size int `json:"size,omitempty"`
	Line int `json:"line,omitempty"`
}

// c18BoundaryText builds the boundary-sweep text; ok is false if Pos falls on a line terminator.
func c18BoundaryText(c c18Case) (string, bool) {
	b := make([]byte, 0, c.Size+2)
	for len(b) < c.Size {
		col := len(b) % c.Line
		switch {
		case col == c.Line-2:
			b = append(b, '\r')
		case col == c.Line-1:
			b = append(b, '\n')
		default:
			b = append(b, byte('a'+(len(b)/c.Line+col)%26))
		}
	}
	col := c.Pos % c.Line
	if col >= c.Line-2 || c.Pos >= len(b) {
		return "", false
	}
	return string(b[:c.Pos]) + "é" + string(b[c.Pos+1:]), true
}

func stripCRLF(s string) string {
	return strings.NewReplacer("\r", "", "\n", "").Replace(s)
}

// toLatin1 converts text (all runes <= U+00FF) to its ISO-8859-1 bytes.
func toLatin1(s string) []byte {
	b := make([]byte, 0, len(s))
	for _, r := range s {
		b = append(b, byte(r))
	}
	return b
}

// c18Judge returns (class, detail).
func c18Judge(text, setter string) (string, string) {
	var class, detail string
	pmsg, site := core.Catch(func() {
		m := fbb.NewMessage(fbb.Private, "N0CALL")
		m.AddTo("N0DEST")
		m.SetSubject("s")
		var err error
		switch setter {
		case "SetBody":
			err = m.SetBody(text)
		case "SetBody-after-SetBody": // the message already had another, longer body
			if err = m.SetBody("an earlier body of this message, longer than most of the texts\r\nsecond line é\r\n"); err == nil {
				err = m.SetBody(text)
			}
		case "SetBody-Body-SetBody": // ... and that earlier body had been read back (listed, rendered) in between
			if err = m.SetBody("an earlier body of this message, longer than most of the texts\r\nsecond line é\r\n"); err == nil {
				_, _ = m.Body()
				_ = m.String()
				err = m.SetBody(text)
			}
		default:
			err = m.SetBodyWithCharset(strings.TrimPrefix(setter, "SetBodyWithCharset:"), text)
		}
		if err != nil {
			class, detail = "setbody-error", err.Error()
			return
		}
		ser, err := m.Bytes()
		if err != nil {
			class, detail = "serialise-error", err.Error()
			return
		}
		// locate the stored body in the serialised message: header, blank line, body
		idx := bytes.Index(ser, []byte("\r\n\r\n"))
		if idx < 0 {
			class, detail = "serialise", "no header terminator"
			return
		}
		hdrBody, _ := strconv.Atoi(m.Header.Get("Body"))
		if hdrBody != m.BodySize() {
			class, detail = "bodysize-accessor", fmt.Sprintf("header %d accessor %d", hdrBody, m.BodySize())
			return
		}
		if idx+4+hdrBody > len(ser) {
			class, detail = "body-header-exceeds-data", fmt.Sprintf("Body header %d, serialised body section %d bytes", hdrBody, len(ser)-idx-4)
			return
		}
		stored := ser[idx+4 : idx+4+hdrBody]
		if rest := ser[idx+4+hdrBody:]; len(rest) != 0 {
			class, detail = "body-header-vs-stored-length", fmt.Sprintf("Body header %d but %d more body bytes are serialised", hdrBody, len(rest))
			return
		}
		wantStripped := toLatin1(stripCRLF(text))

		gs := []byte(strings.NewReplacer("\r", "", "\n", "").Replace(string(stored)))
		if !bytes.Equal(gs, wantStripped) {
			shape := "other"
			switch {
			case len(gs) == 0 && len(wantStripped) > 0:
				shape = "body-empty"
			case len(gs) < len(wantStripped):
				shape = "bytes-lost"
			case len(gs) > len(wantStripped):
				shape = "bytes-added"
			case len(gs) == len(wantStripped):
				shape = "bytes-altered"
			}
			longLine := false
			for _, l := range strings.Split(text, "\n") {
				if len(l) >= 65536 {
					longLine = true
				}
			}
			if longLine {
				shape += "|line>=64KiB"
			} else if bytes.Contains(gs, []byte("??")) || bytes.Contains(gs, []byte("\x1a")) || shape == "bytes-added" {
				shape += "|multibyte-at-wrap"
			}
			d := 0
			for d < len(gs) && d < len(wantStripped) && gs[d] == wantStripped[d] {
				d++
			}
			class, detail = "text-not-preserved|"+shape, fmt.Sprintf("stored (CR/LF removed) %d bytes, input %d bytes, first difference at %d", len(gs), len(wantStripped), d)
			return
		}
		// line discipline
		if len(stored) > 0 && !bytes.HasSuffix(stored, []byte("\r\n")) {
			class, detail = "last-line-not-crlf", ""
			return
		}
		for i, l := range bytes.Split(stored, []byte("\n")) {
			if i == bytes.Count(stored, []byte("\n")) {
				break // after the final LF
			}
			if len(l) == 0 || l[len(l)-1] != '\r' {
				class, detail = "bare-lf", fmt.Sprintf("line %d", i)
				return
			}
			if len(l)+1 > 1000 {
				class, detail = "line-too-long", fmt.Sprintf("line %d has %d bytes incl. CRLF", i, len(l)+1)
				return
			}
		}
		// Body() must decode to the same text
		got, err := m.Body()
		if err != nil {
			class, detail = "body-decode-error", err.Error()
			return
		}
		if stripCRLF(got) != stripCRLF(text) {
			class, detail = "body-accessor-mismatch", fmt.Sprintf("Body() (CR/LF removed) has %d bytes, input %d", len(stripCRLF(got)), len(stripCRLF(text)))
			return
		}
		// and so must the re-parsed message
		var m2 fbb.Message
		if err := m2.ReadFrom(bytes.NewReader(ser)); err != nil {
			class, detail = "reparse-error", err.Error()
			return
		}
		got2, err := m2.Body()
		if err != nil || stripCRLF(got2) != stripCRLF(text) {
			class, detail = "reparsed-body-mismatch", fmt.Sprint(err)
		}
	})
	if pmsg != "" {
		return "panic|" + site, pmsg
	}
	return class, detail
}

func C18(args []string) {
	r := core.Begin("C18", "model_checking", args)
	r.WatchProgress(watchPeriod()) // the code under test runs in this process: a call that never returns must end the check
	alpha := c18Alphabet()
	build := func(idx []int) (string, []string) {
		var sb strings.Builder
		names := make([]string, len(idx))
		for i, k := range idx {
			sb.WriteString(alpha[k].Text)
			names[i] = alpha[k].Name
		}
		return sb.String(), names
	}
	if p := replayArg(args); p != "" {
		var f struct {
			Case c18Case `json:"case"`
		}
		readJSON(p, &f)
		if f.Case.Size > 0 {
			text, _ := c18BoundaryText(f.Case)
			c, d := c18Judge(text, f.Case.Setter)
			fmt.Printf("boundary sweep pos %d size %d line %d setter %s: class=%q %s\n", f.Case.Pos, f.Case.Size, f.Case.Line, f.Case.Setter, c, d)
			return
		}
		var idx []int
		for _, n := range f.Case.Tokens {
			for k, t := range alpha {
				if t.Name == n {
					idx = append(idx, k)
				}
			}
		}
		text, _ := build(idx)
		c, d := c18Judge(text, f.Case.Setter)
		fmt.Printf("tokens %v setter %s (%d bytes): class=%q %s\n", f.Case.Tokens, f.Case.Setter, len(text), c, d)
		return
	}
	maxTok, maxBig := 4, 1
	if r.Thorough() {
		maxTok, maxBig = 5, 2
	}
	var seqs [][]int
	var rec func(cur []int, big int)
	rec = func(cur []int, big int) {
		seqs = append(seqs, append([]int{}, cur...))
		if len(cur) == maxTok {
			return
		}
		for k, t := range alpha {
			nb := big
			if t.Big {
				nb++
				if nb > maxBig {
					continue
				}
			}
			rec(append(cur, k), nb)
		}
	}
	rec(nil, 0)
	setters := []string{"SetBody", "SetBodyWithCharset:utf-8", "SetBodyWithCharset:ISO-8859-1", "SetBody-after-SetBody", "SetBody-Body-SetBody"}
	core.ParallelFor(len(seqs), func(i int) {
		text, names := build(seqs[i])
		for si, st := range setters {
			if si > 0 && len(seqs[i]) > 3 {
				continue
			}
			r.Evals.Add(1)
			if c, d := c18Judge(text, st); c != "" {
				r.Violation("C18|"+c, d, c18Case{Tokens: names, Setter: st, TextLen: len(text)})
			}
		}
		if len(seqs[i]) > 1 {
			r.Nontrivial.Add(1)
		}
		if i%7001 == 0 {
			r.Sample(map[string]any{"tokens": names, "text_len": len(text)})
		}
	})
	// boundary sweep: a two-byte character at every offset near a multiple of 512 (thorough: at every
	// offset) of a 140 KiB normalised text - whatever block size a processing stage works in
	// (bufio 4096, io.Copy 32 KiB, scanner 64 KiB, ...), the character straddles its boundaries
	const sweepSize = 140 << 10
	var sweep []c18Case
	for _, line := range []int{64, 63} {
		for p := 0; p < sweepSize; p++ {
			if m := p % 512; !r.Thorough() && m > 1 && m < 509 {
				continue
			}
			sweep = append(sweep, c18Case{Setter: setters[(p+line)%2], Pos: p, Size: sweepSize, Line: line})
		}
	}
	var swept atomic.Int64
	core.ParallelFor(len(sweep), func(i int) {
		text, ok := c18BoundaryText(sweep[i])
		if !ok {
			return
		}
		r.Evals.Add(1)
		swept.Add(1)
		r.Nontrivial.Add(1)
		if c, d := c18Judge(text, sweep[i].Setter); c != "" {
			r.Violation("C18|"+c+"|boundary-sweep", d, sweep[i])
		}
	})
	r.Finish(core.Coverage{
		"boundary_sweep_positions":      swept.Load(),
		"states":                        int64(len(seqs)) + swept.Load(),
		"transitions":                   r.Evals.Load(),
		"traces_validated_against_impl": r.Evals.Load(),
		"rule":                          "every token sequence up to the length bound over the 21-token line/wrap/charset alphabet (at most max_big 64KiB-class tokens per text) through the real SetBody / SetBodyWithCharset; non-trivial = more than one token",
		"alphabet":                      len(alpha), "max_tokens": maxTok, "max_big_tokens": maxBig,
	}, []string{"boundary sweep: one é at every byte offset p with p mod 512 in {509,510,511,0,1} (thorough: every offset) of a 140 KiB text of 64- and 63-byte CRLF lines", "texts are compositions of the alphabet tokens only; characters are Latin-1 representable (a, é, ÿ, space, CR, LF)"})
}
