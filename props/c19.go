package props

import (
	"fmt"
	"net/url"
	"os"
	"strings"

	"github.com/la5nta/wl2k-go/transport"

	"verif/core"
)

func init() { Registry["C19"] = C19 }

type c19Tuple struct {
	Scheme string   `json:"scheme"`
	User   string   `json:"user"`
	Pass   *string  `json:"pass"`
	Host   string   `json:"host"`
	Digis  []string `json:"digis"`
	Target string   `json:"target"`
	Query  string   `json:"query"`
	Raw    string   `json:"raw,omitempty"`
}

func (t c19Tuple) compose() string {
	u := url.URL{Scheme: t.Scheme, Host: t.Host, RawQuery: t.Query}
	if t.User != "" || t.Pass != nil {
		if t.Pass != nil {
			u.User = url.UserPassword(t.User, *t.Pass)
		} else {
			u.User = url.User(t.User)
		}
	}
	u.Path = "/" + strings.Join(append(append([]string{}, t.Digis...), t.Target), "/")
	return u.String()
}

// c19JudgeTuple returns (class, detail).
func c19JudgeTuple(t c19Tuple) (string, string) {
	raw := t.compose()
	var got *transport.URL
	var err error
	if p, site := core.Catch(func() { got, err = transport.ParseURL(raw) }); p != "" {
		return "panic|" + site, p + " on " + raw
	}
	q, _ := url.ParseQuery(t.Query)
	digisUnsupported := t.Scheme == "ardop" || t.Scheme == "telnet"
	switch {
	case len(strings.ToUpper(t.Target)) < 3: // the target as it would be returned (for ASCII the same length as written)
		if err == nil {
			return "short-target-accepted", raw
		}
		return "", ""
	case len(t.Digis) > 0 && digisUnsupported:
		if err == nil {
			return "digis-accepted-for-scheme-without-digis", raw
		}
		return "", ""
	}
	if err != nil {
		return "valid-url-refused", fmt.Sprintf("%s: %v", raw, err)
	}
	if got.Scheme != t.Scheme {
		return "scheme", fmt.Sprintf("%s: got %q", raw, got.Scheme)
	}
	wantHost := t.Host
	if h := q.Get("host"); h != "" {
		wantHost = h
	}
	if got.Host != wantHost {
		return "host", fmt.Sprintf("%s: got host %q want %q", raw, got.Host, wantHost)
	}
	if t.User == "" && t.Pass == nil {
		if got.User != nil && got.User.String() != "" {
			return "userinfo", fmt.Sprintf("%s: got user %q want none", raw, got.User)
		}
	} else {
		if got.User == nil || got.User.Username() != t.User {
			return "userinfo", fmt.Sprintf("%s: got user %v want %q", raw, got.User, t.User)
		}
		pw, has := got.User.Password()
		if has != (t.Pass != nil) || t.Pass != nil && pw != *t.Pass {
			return "userinfo", fmt.Sprintf("%s: got password %q,%v want %v", raw, pw, has, t.Pass)
		}
	}
	if got.Target != strings.ToUpper(t.Target) {
		return "target", fmt.Sprintf("%s: got target %q", raw, got.Target)
	}
	if len(got.Digis) != len(t.Digis) {
		return "digis", fmt.Sprintf("%s: got digis %q want %q", raw, got.Digis, t.Digis)
	}
	for i := range t.Digis {
		if got.Digis[i] != strings.ToUpper(t.Digis[i]) {
			return "digis", fmt.Sprintf("%s: got digis %q want %q (upper-cased, in order)", raw, got.Digis, t.Digis)
		}
	}
	for k, vs := range q {
		if k == "host" {
			continue
		}
		g := got.Params[k]
		if len(g) != len(vs) {
			return "params", fmt.Sprintf("%s: param %q got %q want %q", raw, k, g, vs)
		}
		for i := range vs {
			if g[i] != vs[i] {
				return "params", fmt.Sprintf("%s: param %q got %q want %q", raw, k, g, vs)
			}
		}
	}
	for k := range got.Params {
		if _, ok := q[k]; !ok {
			return "params", fmt.Sprintf("%s: unexpected param %q", raw, k)
		}
	}
	return "", ""
}

func c19Tuples() []c19Tuple {
	sp := func(s string) *string { return &s }
	type ui struct {
		u string
		p *string
	}
	schemes := []string{"ax25", "ardop", "telnet", "serial-tnc", "ax25+agwpe", "pactor"}
	users := []ui{{"", nil}, {"la5nta", nil}, {"la5nta", sp("pw")}, {"u", sp("p@ss/w")}, {"LA5NTA-7", sp("")}}
	hosts := []string{"", "axport", "0", "localhost:8000", "[::1]:8772", "[::1]"}
	dset := []string{"LA1B-10", "ld5sk", "W1AW"}
	var digis [][]string
	digis = append(digis, nil)
	for n := 1; n <= 3; n++ {
		for i := 0; i < countStrings(3, n); i++ {
			var d []string
			x := i
			for k := 0; k < n; k++ {
				d = append(d, dset[x%3])
				x /= 3
			}
			digis = append(digis, d)
		}
	}
	for n := 4; n <= 8; n++ {
		var d []string
		for k := 0; k < n; k++ {
			d = append(d, fmt.Sprintf("%s%d", dset[k%3][:2], k))
		}
		digis = append(digis, d)
	}
	targets := []string{"LA5NTA", "la5nta-5", "wl2k", "AB", "A", "", // "": the path ends in a slash - no target at all
		"\u017fa", "\u0131\u017f"} // three bytes as written, two characters either way, two bytes upper-cased (SA, IS)
	queries := []string{"", "host=ax0", "host=%2Fdev%2FttyS0", "bw=500", "a=1&a=2", "host=tnc%3A8000&freq=7.1",
		"Freq=7050&bw=500", "Freq=1&freq=2", "Host=ax0"} // names are case-sensitive: only "host" replaces the host
	var out []c19Tuple
	for _, s := range schemes {
		for _, u := range users {
			for _, h := range hosts {
				for _, d := range digis {
					for _, t := range targets {
						for _, q := range queries {
							out = append(out, c19Tuple{Scheme: s, User: u.u, Pass: u.p, Host: h, Digis: d, Target: t, Query: q})
						}
					}
				}
			}
		}
	}
	return out
}

var c19Hook func(r *core.Run) core.Coverage // set by the govs-backed registry part when available

func C19(args []string) {
	r := core.Begin("C19", "model_checking", args)
	r.WatchProgress(watchPeriod()) // the code under test runs in this process: a call that never returns must end the check
	if p := replayArg(args); p != "" {
		if b, _ := os.ReadFile(p); strings.Contains(string(b), `"choices"`) {
			ExecGovs(append([]string{"C19"}, args...)) // a registry schedule: replayed by the govs binary
		}
		var f struct {
			Case c19Tuple `json:"case"`
		}
		readJSON(p, &f)
		if f.Case.Raw != "" {
			u, err := transport.ParseURL(f.Case.Raw)
			fmt.Printf("raw %q -> %+v, %v\n", f.Case.Raw, u, err)
			return
		}
		c, d := c19JudgeTuple(f.Case)
		fmt.Printf("%s: class=%q %s\n", f.Case.compose(), c, d)
		return
	}
	tuples := c19Tuples()
	core.ParallelFor(len(tuples), func(i int) {
		r.Evals.Add(1)
		if c, d := c19JudgeTuple(tuples[i]); c != "" {
			r.Violation("C19|parse|"+c, d, tuples[i])
		}
		if i%30011 == 0 {
			r.Sample(map[string]any{"url": tuples[i].compose()})
		}
	})
	// robustness: every raw string up to length 6 (thorough 7) over a 12-symbol alphabet
	alpha := []string{"a", ":", "/", "?", "@", "%", "#", "[", "]", " ", "\x00", "é"}
	maxLen := 6
	if r.Thorough() {
		maxLen = 7
	}
	var rawCount int64
	for n := 0; n <= maxLen; n++ {
		total := countStrings(len(alpha), n)
		rawCount += int64(total)
		core.ParallelFor(16, func(shard int) {
			for i := shard; i < total; i += 16 {
				var sb strings.Builder
				x := i
				for k := 0; k < n; k++ {
					sb.WriteString(alpha[x%len(alpha)])
					x /= len(alpha)
				}
				raw := sb.String()
				if p, site := core.Catch(func() {
					u, err := transport.ParseURL(raw)
					if u == nil && err == nil {
						panic("nil URL and nil error")
					}
				}); p != "" {
					r.Violation("C19|raw|panic|"+site, fmt.Sprintf("%q: %s", raw, p), c19Tuple{Raw: raw})
				}
			}
		})
	}
	r.Evals.Add(rawCount)
	cov := core.Coverage{
		"states":                        int64(len(tuples)) + rawCount,
		"transitions":                   int64(len(tuples)) + rawCount,
		"traces_validated_against_impl": int64(len(tuples)) + rawCount,
		"distinct_nontrivial":           int64(len(tuples)),
		"rule":                          "component tuples composed with net/url's own escaping and parsed by the real ParseURL (distinct tuples); raw strings up to the length bound over a 12-symbol alphabet for the never-panics clause",
		"tuples":                        len(tuples), "raw_strings": rawCount, "raw_max_len": maxLen,
	}
	// registry / dispatch under concurrency: the govs binary explores all interleavings
	bin := BuildGovs()
	r.StopWatch() // the registry part runs in the other binary, under its own supervision
	if died, kind, tail := r.RunForeign(bin, "C19", nil, 600e9); died {
		core.Infra("C19 registry part failed (%s): %s", kind, core.Trunc(tail, 1500))
	}
	for k, v := range r.Added() {
		cov[k] = v
	}
	if n, ok := cov["registry_schedules"].(int64); ok {
		cov["states"] = cov["states"].(int64) + r.Added()["registry_states"]
		cov["transitions"] = cov["transitions"].(int64) + r.Added()["registry_visible_steps"]
		_ = n
	}
	r.Finish(cov, []string{"URL text is composed by net/url (trusted) from the tuple", "registry/dispatch under concurrency is explored by the govs part (see registry_* keys) when present"})
}
