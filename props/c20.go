package props

import (
	"fmt"
	"math"
	"regexp"
	"strconv"
	"strings"
	"sync"
	"time"

	"github.com/la5nta/wl2k-go/catalog"

	"verif/core"
)

func init() { Registry["C20"] = C20 }

var (
	reLat    = regexp.MustCompile(`^(\d\d)-(\d\d\.\d{4})([NS])$`)
	reLon    = regexp.MustCompile(`^(\d\d\d)-(\d\d\.\d{4})([EW])$`)
	reCourse = regexp.MustCompile(`^\d\d\d[TM]$`)
)

// c20Axis returns the exhaustively enumerated coordinate values for one axis (limit 90 or 180).
func c20Axis(limit int) []float64 {
	seen := map[uint64]struct{}{}
	var out []float64
	add := func(v float64) {
		if v < -float64(limit) || v > float64(limit) || math.IsNaN(v) {
			return
		}
		b := math.Float64bits(v)
		if _, ok := seen[b]; ok {
			return
		}
		seen[b] = struct{}{}
		out = append(out, v)
	}
	nb := func(v float64, n int) {
		add(v)
		u, d := v, v
		for i := 0; i < n; i++ {
			u = math.Nextafter(u, math.Inf(1))
			d = math.Nextafter(d, math.Inf(-1))
			add(u)
			add(d)
		}
	}
	add(0)
	add(math.Copysign(0, -1))
	for _, sgn := range []float64{1, -1} {
		for deg := 0; deg <= limit; deg++ {
			for m := 0; m < 60; m++ {
				if deg == limit && m > 0 {
					break
				}
				base := sgn * (float64(deg) + float64(m)/60)
				nb(base, 20)
				// k x 1e-4 minute and the half-way points, for k within +-3 of the whole minute
				for k := -6; k <= 6; k++ {
					add(sgn * (float64(deg) + (float64(m)+float64(k)*0.5e-4)/60))
				}
				// tiny offsets below the next whole minute in decimal notation, as a user would type them
				for _, eps := range []float64{1e-5, 1e-6, 1e-7, 1e-8, 1e-9, 1e-10, 1e-12} {
					add(sgn * (float64(deg) + float64(m)/60 - eps))
					add(sgn * (float64(deg) + float64(m)/60 + eps))
				}
			}
		}
	}
	return out
}

// speeds a set Speed field is tried with (zero and negative are "set" too)
var c20Speeds = []float64{0, 5.5, -1.5, 0.000001, 123456.789}

type c20Case struct {
	Lat, Lon          float64
	Speed, Course     bool
	SpeedVal          float64
	CourseDeg         int
	Magnetic, Comment bool
	NoLat, NoLon      bool // the report carries no latitude / no longitude (the fields are pointers)
}

func c20Body(c c20Case) (body string, validateErr error, panicMsg string) {
	panicMsg, _ = core.Catch(func() {
		p := catalog.PosReport{Date: time.Date(2020, 2, 29, 12, 34, 0, 0, time.UTC)}
		lat, lon := c.Lat, c.Lon
		p.Lat, p.Lon = &lat, &lon
		if c.NoLat {
			p.Lat = nil
		}
		if c.NoLon {
			p.Lon = nil
		}
		if c.Speed {
			s := c.SpeedVal
			p.Speed = &s
		}
		if c.Course {
			co, err := catalog.NewCourse(c.CourseDeg, c.Magnetic)
			if err != nil {
				panic("NewCourse: " + err.Error())
			}
			p.Course = co
		}
		if c.Comment {
			p.Comment = "hello"
		}
		m := p.Message("N0CALL")
		validateErr = m.Validate()
		body, _ = m.Body()
	})
	return
}

func c20Field(body, key string) (string, bool) {
	for _, l := range strings.Split(body, "\r\n") {
		if strings.HasPrefix(l, key+": ") {
			return strings.TrimPrefix(l, key+": "), true
		}
	}
	return "", false
}

// c20CheckCoord judges one formatted coordinate; returns "" or a violation class.
func c20CheckCoord(s string, v float64, lat bool) string {
	re, limit, pos, neg := reLon, 180.0, "E", "W"
	if lat {
		re, limit, pos, neg = reLat, 90.0, "N", "S"
	}
	m := re.FindStringSubmatch(s)
	if m == nil {
		if v == 0 && strings.HasSuffix(s, " ") {
			return "hemisphere-blank-at-zero"
		}
		return "format"
	}
	deg, _ := strconv.Atoi(m[1])
	min, _ := strconv.ParseFloat(m[2], 64)
	if min >= 60 {
		return "minutes-60"
	}
	if float64(deg)+min/60 > limit {
		return "range"
	}
	if v > 0 && m[3] != pos || v < 0 && m[3] != neg {
		// a value that rounds to zero at the printed resolution may carry either letter
		if !(deg == 0 && min == 0) {
			return "hemisphere-wrong"
		}
	}
	// error in minutes: compare in exact-ish arithmetic using minutes of |v|
	want := math.Abs(v) * 60
	got := float64(deg)*60 + min
	tol := 0.5e-4 + 1e-9 // half a ten-thousandth of a minute plus float slack (|v|*60 ulp <= 2e-12)
	if math.Abs(got-want) > tol {
		return "error-too-large"
	}
	return ""
}

func C20(args []string) {
	r := core.Begin("C20", "model_checking", args)
	r.WatchProgress(watchPeriod()) // the code under test runs in this process: a call that never returns must end the check
	if p := replayArg(args); p != "" {
		c20Replay(p)
		return
	}
	lats, lons := c20Axis(90), c20Axis(180)
	var mu sync.Mutex
	classes := map[string]int{}
	report := func(class string, c c20Case, body string) {
		sig := "C20|" + class
		r.Violation(sig, fmt.Sprintf("case %+v body %q", c, body), c)
		mu.Lock()
		classes[class]++
		mu.Unlock()
	}
	judge := func(c c20Case) {
		r.Evals.Add(1)
		body, verr, pmsg := c20Body(c)
		if pmsg != "" {
			report("panic", c, pmsg)
			return
		}
		if verr != nil {
			report("validate", c, verr.Error())
		}
		la, ok1 := c20Field(body, "LATITUDE")
		lo, ok2 := c20Field(body, "LONGITUDE")
		if c.NoLat || c.NoLon {
			// a report without a (complete) position is still a message; the position lines are judged
			// only where the property speaks about them (both coordinates given, or none: no lines)
			if c.NoLat && c.NoLon && (ok1 || ok2) {
				report("position-lines-without-position", c, body)
			}
			_, hasS := c20Field(body, "SPEED")
			_, hasC := c20Field(body, "COURSE")
			_, hasM := c20Field(body, "COMMENT")
			if hasS != c.Speed || hasC != c.Course || hasM != c.Comment {
				report("optional-field-presence", c, body)
			}
			return
		}
		if !ok1 || !ok2 {
			report("missing-lat-lon", c, body)
			return
		}
		if cl := c20CheckCoord(la, c.Lat, true); cl != "" {
			report("lat-"+cl, c, body)
		}
		if cl := c20CheckCoord(lo, c.Lon, false); cl != "" {
			report("lon-"+cl, c, body)
		}
		sp, hasS := c20Field(body, "SPEED")
		if hasS && c.Speed {
			if v, err := strconv.ParseFloat(sp, 64); err != nil || math.Abs(v-c.SpeedVal) > 1e-6*math.Max(1, math.Abs(c.SpeedVal)) {
				report("speed-value", c, body)
			}
		}
		co, hasC := c20Field(body, "COURSE")
		_, hasM := c20Field(body, "COMMENT")
		if hasS != c.Speed || hasC != c.Course || hasM != c.Comment {
			report("optional-field-presence", c, body)
		}
		if hasC {
			if !reCourse.MatchString(co) {
				if strings.Contains(co, " ") {
					report("course-space-padded", c, body)
				} else {
					report("course-format", c, body)
				}
			} else {
				wantD := c.CourseDeg % 360
				wantL := "T"
				if c.Magnetic {
					wantL = "M"
				}
				if co != fmt.Sprintf("%03d%s", wantD, wantL) {
					report("course-value", c, body)
				}
			}
		}
	}
	// 1. each axis exhaustively over its value set (the two coordinates are formatted independently)
	core.ParallelFor(len(lats), func(i int) {
		judge(c20Case{Lat: lats[i], Lon: 12.5})
		if i%50000 == 0 {
			r.Sample(map[string]any{"lat": lats[i], "lon": 12.5})
		}
	})
	core.ParallelFor(len(lons), func(i int) {
		judge(c20Case{Lat: 45.25, Lon: lons[i]})
		if i%50000 == 0 {
			r.Sample(map[string]any{"lat": 45.25, "lon": lons[i]})
		}
	})
	// 2. full product of a sub-grid (pairs)
	sub := func(a []float64, n int) []float64 {
		var o []float64
		step := len(a) / n
		for i := 0; i < len(a); i += step {
			o = append(o, a[i])
		}
		return append(o, a[len(a)-1])
	}
	sl, so := sub(lats, 400), sub(lons, 400)
	core.ParallelFor(len(sl), func(i int) {
		for _, lo := range so {
			judge(c20Case{Lat: sl[i], Lon: lo})
		}
	})
	// 3. all courses x {magnetic,true} x all 2^3 combinations of the other optional fields
	for deg := 0; deg <= 360; deg++ {
		for _, mag := range []bool{false, true} {
			for opt := 0; opt < 4; opt++ {
				for _, sv := range c20Speeds {
					if opt&1 == 0 && sv != 0 {
						continue
					}
					judge(c20Case{Lat: 10.5, Lon: -20.25, Course: true, CourseDeg: deg, Magnetic: mag, Speed: opt&1 != 0, SpeedVal: sv, Comment: opt&2 != 0})
				}
			}
		}
	}
	for opt := 0; opt < 4; opt++ {
		for _, sv := range c20Speeds {
			if opt&1 == 0 && sv != 0 {
				continue
			}
			judge(c20Case{Lat: 10.5, Lon: -20.25, Speed: opt&1 != 0, SpeedVal: sv, Comment: opt&2 != 0})
		}
	}
	// reports without a latitude and/or a longitude, with every combination of the other optional fields
	for pos := 1; pos < 4; pos++ {
		for opt := 0; opt < 8; opt++ {
			judge(c20Case{Lat: 10.5, Lon: -20.25, NoLat: pos&1 != 0, NoLon: pos&2 != 0, Speed: opt&1 != 0, SpeedVal: 5, Comment: opt&2 != 0, Course: opt&4 != 0, CourseDeg: 90})
		}
	}
	// out-of-range courses must be refused
	for _, d := range []int{-1, 361, 1000, -360} {
		if _, err := catalog.NewCourse(d, false); err == nil {
			report("course-out-of-range-accepted", c20Case{CourseDeg: d}, "")
		}
	}
	n := r.Evals.Load()
	r.Finish(core.Coverage{
		"states":                        int64(len(lats) + len(lons)),
		"transitions":                   n,
		"traces_validated_against_impl": n,
		"distinct_nontrivial":           int64(len(lats) + len(lons) - 2),
		"rule":                          "every enumerated coordinate value is run through the real PosReport.Message; distinct = distinct float64 values per axis; non-trivial = not the default coordinate",
		"lat_values":                    len(lats), "lon_values": len(lons), "pair_grid": len(sl) * len(so),
		"violation_classes": classes,
	}, []string{"the two coordinates are formatted independently (pairs only on a 400x400 sub-grid)", "inputs are float64 values in range; NaN/Inf are outside the property"})
}

func c20Replay(path string) {
	var f struct {
		Case c20Case `json:"case"`
	}
	readJSON(path, &f)
	body, verr, p := c20Body(f.Case)
	fmt.Printf("case %+v\nbody:\n%s\nvalidate=%v panic=%q\n", f.Case, body, verr, p)
}
