package props

import (
	"fmt"
	"os"
	"os/exec"
	"path/filepath"
	"syscall"

	"verif/core"
)

// GovsIDs are the checks that live in the overlay-built binary (rewritten / seam-instrumented
// packages).
var GovsIDs = map[string]bool{"C11": true, "C12": true, "C13": true, "C14": true, "C15": true, "C17": true, "shimtest": true, "buildgovs": true}

const govsPkgs = "transport,transport/telnet,transport/ax25/agwpe,transport/ardop,fbb"
const vfsPkgs = "mailbox"

// BuildGovs regenerates the instrumented sources from /repo's working tree and builds vgovs with
// them as an overlay. A failure is INSTRUMENTATION-FAILED (exit 2), never a violation.
func BuildGovs() string {
	scratch, err := os.MkdirTemp("", "verif-overlay")
	if err != nil {
		core.Infra("%v", err)
	}
	defer os.RemoveAll(scratch)
	env := core.GoEnv()
	args := []string{"-repo", core.Repo, "-out", scratch, "-govs", govsPkgs, "-vfs", vfsPkgs, "-vroot", core.Root, "-vpkg", "verif/shimprogs"}
	adds, _ := filepath.Glob(filepath.Join(core.Root, "hooks", "*", "*.go"))
	for _, a := range adds {
		// hooks/<pkg path with __>/<file>.go is added to that package as zz_verif_<file>.go
		pkg := filepath.Base(filepath.Dir(a))
		args = append(args, "-add", fmt.Sprintf("%s=%s", filepathFromUnderscores(pkg), a))
	}
	rw := exec.Command(filepath.Join(core.Root, "bin", "vrewrite"), args...)
	rw.Env = env
	if out, err := rw.CombinedOutput(); err != nil {
		fmt.Printf("INSTRUMENTATION-FAILED: rewriter: %v\n%s\n", err, out)
		os.Exit(2)
	}
	bin := filepath.Join(core.Root, "bin", fmt.Sprintf("vgovs.%d", os.Getpid()))
	b := exec.Command("go", "build", "-overlay", filepath.Join(scratch, "overlay.json"), "-tags", "verif", "-o", bin, "./cmd/vgovs")
	b.Dir = core.Root
	b.Env = env
	if out, err := b.CombinedOutput(); err != nil {
		fmt.Printf("INSTRUMENTATION-FAILED: the instrumented packages do not build: %v\n%s\n", err, core.Trunc(string(out), 4000))
		os.Exit(2)
	}
	final := filepath.Join(core.Root, "bin", "vgovs")
	os.Rename(bin, final)
	return final
}

func filepathFromUnderscores(s string) string {
	out := []byte(s)
	for i := 0; i+1 < len(out); i++ {
		if out[i] == '_' && out[i+1] == '_' {
			out[i] = '/'
			out = append(out[:i+1], out[i+2:]...)
		}
	}
	return string(out)
}

// ExecGovs replaces this process by vgovs running the same check.
func ExecGovs(args []string) {
	bin := BuildGovs()
	err := syscall.Exec(bin, append([]string{bin}, args...), os.Environ())
	core.Infra("exec %s: %v", bin, err)
}
