package props

import (
	"bytes"
	"fmt"
	"io"
	"os"

	"github.com/la5nta/wl2k-go/lzhuf"

	"verif/core"
)

// libEncode compresses in through the real Writer, split into Write calls at the given cut
// positions (sorted offsets in (0,len)); zeroAt >= 0 inserts a zero-length Write before the
// zeroAt-th real write. Returns compressed bytes, Close error, panic text.
func libEncode(in []byte, crc bool, cuts []int, zeroAt int) (out []byte, cerr error, pmsg, psite string) {
	pmsg, psite = core.Catch(func() {
		var buf bytes.Buffer
		w := lzhuf.NewWriter(&buf, crc)
		prev := 0
		k := 0
		var scratch []byte
		wr := func(p []byte) {
			if k == zeroAt {
				if n, err := w.Write(p[:0]); n != 0 || err != nil {
					cerr = fmt.Errorf("zero-length Write returned (%d,%v)", n, err)
				}
			}
			k++
			// every piece comes in the caller's scratch buffer, which is refilled as soon as Write has
			// returned (io.Writer: "Write must not retain p")
			scratch = append(scratch[:0], p...)
			n, err := w.Write(scratch)
			if err != nil || n != len(p) {
				cerr = fmt.Errorf("Write(%d bytes) returned (%d,%v)", len(p), n, err)
			}
			for i := range scratch {
				scratch[i] ^= 0xa5
			}
		}
		for _, c := range cuts {
			wr(in[prev:c])
			prev = c
		}
		if prev < len(in) || len(cuts) == 0 && len(in) > 0 {
			wr(in[prev:])
		}
		if k == zeroAt { // trailing zero-length write (also covers the empty input)
			w.Write(nil)
		}
		if err := w.Close(); err != nil && cerr == nil {
			cerr = err
		}
		out = buf.Bytes()
	})
	return
}

type readOutcome struct {
	Data     []byte
	NewErr   error // from NewReader
	ReadErr  error // terminal error from Read (io.EOF is normal)
	CloseErr error
	Livelock bool // 64 consecutive (0,nil) with a non-empty buffer
	TooMany  bool // produced more than limit bytes, reading stopped
	Panic    string
	Site     string
	Reads    int
	Stopped  bool // the consumer had all the bytes it wanted and stopped before the end of the stream
}

// chunkReader returns its data in pieces of the given size (0 = all at once). With eofWithData the
// last piece comes together with io.EOF (as io.Reader allows and length-aware sources do).
type chunkReader struct {
	b           []byte
	n           int
	eofWithData bool
}

func (c *chunkReader) Read(p []byte) (int, error) {
	if len(c.b) == 0 {
		return 0, io.EOF
	}
	n := len(p)
	if c.n > 0 && n > c.n {
		n = c.n
	}
	if n > len(c.b) {
		n = len(c.b)
	}
	copy(p, c.b[:n])
	c.b = c.b[n:]
	if c.eofWithData && len(c.b) == 0 {
		return n, io.EOF
	}
	return n, nil
}

// libDecode reads comp through the real Reader with the cycling sequence of buffer sizes.
// limit bounds the number of bytes accepted before giving up (TooMany).
func libDecode(comp []byte, crc bool, sizes []int, srcChunk int, limit int) (o readOutcome) {
	return libDecodeStop(comp, crc, sizes, srcChunk, limit, -1)
}

// libDecodeStop: a consumer that knows the size stops reading once it has stopAt bytes (>= 0) and closes
// without ever seeing the end of the stream.
func libDecodeStop(comp []byte, crc bool, sizes []int, srcChunk int, limit int, stopAt int) (o readOutcome) {
	o.Panic, o.Site = core.Catch(func() {
		var src io.Reader = bytes.NewReader(comp)
		switch {
		case srcChunk > 0:
			src = &chunkReader{b: comp, n: srcChunk}
		case srcChunk == -1: // everything, together with io.EOF, in one call
			src = &chunkReader{b: comp, eofWithData: true}
		case srcChunk < -1: // pieces of -srcChunk bytes, the last one together with io.EOF
			src = &chunkReader{b: comp, n: -srcChunk, eofWithData: true}
		}
		r, err := lzhuf.NewReader(src, crc)
		if err != nil {
			o.NewErr = err
			return
		}
		maxSize := 1
		for _, s := range sizes {
			if s > maxSize {
				maxSize = s
			}
		}
		buf := make([]byte, maxSize)
		zero := 0
		for i := 0; ; i++ {
			sz := sizes[i%len(sizes)]
			if sz < 1 {
				sz = 1
			}
			n, err := r.Read(buf[:sz])
			o.Reads++
			o.Data = append(o.Data, buf[:n]...)
			if err != nil {
				o.ReadErr = err
				break
			}
			if n == 0 {
				zero++
				if zero >= 64 {
					o.Livelock = true
					break
				}
			} else {
				zero = 0
			}
			if len(o.Data) > limit {
				o.TooMany = true
				break
			}
			if stopAt >= 0 && len(o.Data) >= stopAt {
				o.Stopped = true
				break
			}
		}
		o.CloseErr = r.Close()
	})
	return
}

// compositions calls f with every composition of n (ordered sums), n >= 1.
func compositions(n int, f func(parts []int)) {
	parts := make([]int, 0, n)
	var rec func(rem int)
	rec = func(rem int) {
		if rem == 0 {
			f(parts)
			return
		}
		for k := 1; k <= rem; k++ {
			parts = append(parts, k)
			rec(rem - k)
			parts = parts[:len(parts)-1]
		}
	}
	rec(n)
}

// cutsOfMask turns a bit mask over the n-1 interior positions into sorted cut offsets.
func cutsOfMask(n int, mask int) []int {
	var c []int
	for i := 1; i < n; i++ {
		if mask>>(uint(i-1))&1 != 0 {
			c = append(c, i)
		}
	}
	return c
}

// allStrings calls f with every string over alpha of length exactly n.
func allStrings(alpha []byte, n int, f func(s []byte)) {
	s := make([]byte, n)
	idx := make([]int, n)
	for {
		for i := range s {
			s[i] = alpha[idx[i]]
		}
		f(s)
		i := n - 1
		for ; i >= 0; i-- {
			idx[i]++
			if idx[i] < len(alpha) {
				break
			}
			idx[i] = 0
		}
		if i < 0 {
			return
		}
	}
}

func countStrings(k, n int) int {
	t := 1
	for i := 0; i < n; i++ {
		t *= k
	}
	return t
}

// nthString returns the idx-th string of length n over alpha (little-endian digits).
func nthString(alpha []byte, n, idx int) []byte {
	s := make([]byte, n)
	for i := 0; i < n; i++ {
		s[i] = alpha[idx%len(alpha)]
		idx /= len(alpha)
	}
	return s
}

// ---- long / structured input generators (deterministic, fixed constants) ----

func lcgBytes(n int, seed uint32, symbols int) []byte {
	b := make([]byte, n)
	x := seed
	for i := range b {
		x = x*1664525 + 1013904223
		v := byte(x >> 24)
		if symbols > 0 {
			v = "ab \nc"[int(v)%symbols]
		}
		b[i] = v
	}
	return b
}

// binaryLike is pseudo-binary data: about half of the bytes are lo, a quarter hi, the rest random -
// the byte values 0x00/0x01 that text never contains, frequent enough to sit high in the adaptive
// tree when it is rebuilt.
func binaryLike(n int, seed uint32, lo, hi byte) []byte {
	b := make([]byte, n)
	x := seed
	for i := range b {
		x = x*1664525 + 1013904223
		switch v := byte(x >> 24); {
		case v < 128:
			b[i] = lo
		case v < 192:
			b[i] = hi
		default:
			x = x*1664525 + 1013904223
			b[i] = byte(x >> 24)
		}
	}
	return b
}

// skewed draws from alpha byte values with geometrically falling weights (ratio num/den) and, about
// once in rare bytes, one of the other 256-alpha values: a source skewed enough to push codes of the
// adaptive Huffman tree to its greatest depths (the coder rebuilds the tree every 32 K symbols).
func skewed(n int, seed uint64, alpha int, num, den, rare uint64) []byte {
	x := seed*0x2545F4914F6CDD1D + 0x9E3779B97F4A7C15
	next := func() uint64 { // xorshift64*
		x ^= x >> 12
		x ^= x << 25
		x ^= x >> 27
		return x * 0x2545F4914F6CDD1D
	}
	cum := make([]uint64, alpha)
	w, tot := uint64(1)<<40, uint64(0)
	for i := range cum {
		tot += w
		cum[i] = tot
		w = w * num / den
	}
	vals := make([]byte, 256) // a fixed shuffle of the byte values
	for i := range vals {
		vals[i] = byte(i)
	}
	for i := 255; i > 0; i-- {
		k := int(next() % uint64(i+1))
		vals[i], vals[k] = vals[k], vals[i]
	}
	b := make([]byte, n)
	for i := range b {
		if next()%rare == 0 {
			b[i] = vals[alpha+int(next()%uint64(256-alpha))]
			continue
		}
		r, k := next()%tot, 0
		for k < alpha-1 && r >= cum[k] {
			k++
		}
		b[i] = vals[k]
	}
	return b
}

// deepCode builds an input whose coded symbols are mostly match lengths 3..10 with Fibonacci-like
// counts (each at least the sum of all lighter ones, times slack) above a mass a0 of rarely used
// symbols - the weight profile that drives an adaptive Huffman tree to its greatest depth between two
// rebuilds (codes of 17 and 18 bits for the lightest symbols). The text is made of 20 bases of 12
// distinct bytes; a word is a prefix of a base, the base after it never continues the match, and every
// so often all bases are repeated in full in a changing order so that they stay inside the window.
func deepCode(a0, slack float64) []byte {
	const m, blen, nlev = 20, 12, 8
	w := []float64{a0 / 2 * slack, a0 * slack}
	a := []float64{a0, a0 + w[0]}
	a = append(a, a[1]+w[1])
	for len(w) < nlev {
		w = append(w, a[len(w)-1]*slack)
		a = append(a, a[len(a)-1]+w[len(w)-1])
	}
	var counts []int
	for i := len(w) - 1; i >= 0; i-- {
		counts = append(counts, int(w[i]))
	}
	bases := make([][]byte, m)
	v := 0
	for i := range bases {
		bases[i] = make([]byte, blen)
		for k := range bases[i] {
			bases[i][k] = byte(v)
			v++
		}
	}
	var in []byte
	for _, b := range bases {
		in = append(in, b...)
	}
	left := append([]int{}, counts...)
	total := 0
	for _, c := range counts {
		total += c
	}
	next := map[[2]int]int{}
	b, refresh := 0, 0
	lens := []int{3, 4, 5, 6, blen, 7, 8, 9, 10}
	strides := []int{1, 3, 7, 9, 11, 13, 17, 19}
	for n := 0; n < total; n++ {
		bestK, bestV := -1, -1.0
		for k, l := range left { // the symbol furthest behind its share
			if l == 0 {
				continue
			}
			if val := float64(l) / float64(counts[k]); val > bestV {
				bestV, bestK = val, k
			}
		}
		if bestK < 0 {
			break
		}
		left[bestK]--
		L := lens[bestK]
		if L == blen {
			st := strides[refresh%len(strides)]
			refresh++
			for i := 0; i < m; i++ {
				in = append(in, bases[(refresh+i*st)%m]...)
			}
			left[bestK] -= m - 1
			if left[bestK] < 0 {
				left[bestK] = 0
			}
			n += m - 1
			continue
		}
		in = append(in, bases[b][:L]...)
		key := [2]int{b, L}
		c := next[key]
		next[key] = c + 1
		b = (b + 1 + c%(m-1)) % m
	}
	return append(in, 253, 254, 255)
}

func periodic(n, p int) []byte {
	b := make([]byte, n)
	for i := range b {
		b[i] = byte(33 + (i%p)%90)
		if p > 90 {
			b[i] = byte((i % p) * 7 % 251)
		}
	}
	return b
}

var textCorpus []byte

func corpusText(n int) []byte {
	if textCorpus == nil {
		b, err := os.ReadFile(core.Repo + "/lzhuf/testdata/Mark.Twain-Tom.Sawyer.txt")
		if err != nil {
			core.Infra("%v", err)
		}
		textCorpus = b
	}
	if n > len(textCorpus) {
		n = len(textCorpus)
	}
	return textCorpus[:n]
}

type namedInput struct {
	Name string
	Data []byte
}

func longFamily(thorough bool) []namedInput {
	lens := []int{2047, 2048, 2049, 4095, 4096, 4097, 32454, 32457, 32460, 65536}
	if thorough {
		lens = append(lens, 32455, 32456, 32458, 32459, 200000, 400000)
	}
	var out []namedInput
	for _, n := range lens {
		out = append(out,
			namedInput{fmt.Sprintf("single-byte/%d", n), bytes.Repeat([]byte{'x'}, n)},
			namedInput{fmt.Sprintf("spaces/%d", n), bytes.Repeat([]byte{' '}, n)},
			namedInput{fmt.Sprintf("lcg256/%d", n), lcgBytes(n, 12345, 0)},
			namedInput{fmt.Sprintf("lcg4/%d", n), lcgBytes(n, 777, 4)},
		)
		if n <= 70000 {
			out = append(out,
				namedInput{fmt.Sprintf("period2047/%d", n), periodic(n, 2047)},
				namedInput{fmt.Sprintf("period2048/%d", n), periodic(n, 2048)},
				namedInput{fmt.Sprintf("period2049/%d", n), periodic(n, 2049)},
				namedInput{fmt.Sprintf("text/%d", n), corpusText(n)},
			)
		}
	}
	// long enough for at least one rebuild of the adaptive tree (32 K coded symbols) with the lowest
	// byte values in it
	for _, n := range []int{120000} {
		out = append(out,
			namedInput{fmt.Sprintf("binary-00-01/%d", n), binaryLike(n, 4711, 0x00, 0x01)},
			namedInput{fmt.Sprintf("binary-01-00/%d", n), binaryLike(n, 4712, 0x01, 0x00)},
			namedInput{fmt.Sprintf("binary-ff-fe/%d", n), binaryLike(n, 4713, 0xff, 0xfe)},
		)
	}
	// very skewed sources, long enough for several rebuilds: the deepest codes of the adaptive tree
	for i, sh := range [][4]uint64{{12, 3, 4, 1000}, {12, 3, 4, 3000}, {9, 3, 4, 300}, {10, 3, 5, 3000}, {11, 7, 10, 600}, {12, 2, 3, 2000}} {
		out = append(out, namedInput{fmt.Sprintf("skewed-%d/150000", i), skewed(150000, uint64(i+1), int(sh[0]), sh[1], sh[2], sh[3])})
	}
	// the deepest codes of all: 17 and 18 bits (the coder's code register is 16 bits wide)
	for _, a0 := range []float64{540, 570, 600, 640} {
		for _, sl := range []float64{1.02, 1.04, 1.06, 1.09} {
			out = append(out, namedInput{fmt.Sprintf("deep-code-%v-%v", a0, sl), deepCode(a0, sl)})
		}
	}
	if thorough {
		out = append(out, namedInput{"text/full", corpusText(1 << 30)})
	}
	return out
}

func hexs(b []byte) string { return fmt.Sprintf("%x", b) }
