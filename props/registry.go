package props

import (
	"encoding/json"
	"os"
	"strconv"
	"time"

	"verif/core"
)

// Registry maps a property id (or auxiliary command) to its entry point.
var Registry = map[string]func(args []string){}

func replayArg(args []string) string {
	for i, a := range args {
		if a == "--replay" && i+1 < len(args) {
			return args[i+1]
		}
	}
	return ""
}

func readJSON(path string, v any) {
	b, err := os.ReadFile(path)
	if err != nil {
		core.Infra("replay: %v", err)
	}
	if err := json.Unmarshal(b, v); err != nil {
		core.Infra("replay: %v", err)
	}
}

func os_stderr() *os.File { return os.Stderr }

// watchPeriod is the no-progress period after which an in-process check gives up (VERIF_WATCH_SECONDS
// overrides it, for demonstrations).
func watchPeriod() time.Duration {
	if v, err := strconv.Atoi(os.Getenv("VERIF_WATCH_SECONDS")); err == nil && v > 0 {
		return time.Duration(v) * time.Second
	}
	return 10 * time.Minute
}
