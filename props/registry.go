package props

import (
	"encoding/json"
	"os"

	"verif/core"
)

// Registry maps a property id (or auxiliary command) to its entry point.
var Registry = map[string]func(args []string){}

func replayArg(args []string) string {
	for i, a := range args {
		if a == "--replay" && i+1 < len(args) {
			return args[i+1]
		}
	}
	return ""
}

func readJSON(path string, v any) {
	b, err := os.ReadFile(path)
	if err != nil {
		core.Infra("replay: %v", err)
	}
	if err := json.Unmarshal(b, v); err != nil {
		core.Infra("replay: %v", err)
	}
}

func os_stderr() *os.File { return os.Stderr }
