package props

import (
	"bytes"
	"fmt"
	"os"
	"path/filepath"

	"verif/core"
	rl "verif/ref/lzhuf"
)

func init() { Registry["selftest"] = SelfTest }

// SelfTest anchors every independent reference to vectors that do not come from the code under
// test. A failure is an infrastructure error (exit 2), never a violation.
func SelfTest(args []string) {
	n := 0
	n += selfTestLZHUF()
	for _, f := range extraSelfTests {
		n += f()
	}
	fmt.Printf("selftest ok (%d anchors)\n", n)
}

var extraSelfTests []func() int

// selfTestLZHUF: the reference decoder must reproduce the golden originals from the golden .lzh
// files; the reference encoder must round-trip through the reference decoder.
func selfTestLZHUF() int {
	if rl.CRC16([]byte("123456789")) != 0x31C3 {
		core.Infra("ref CRC16 check value")
	}
	files, _ := filepath.Glob(core.Repo + "/lzhuf/testdata/*.lzh")
	if len(files) < 5 {
		core.Infra("golden lzh files missing (%d)", len(files))
	}
	n := 1
	for _, lzh := range files {
		comp, err := os.ReadFile(lzh)
		if err != nil {
			core.Infra("%v", err)
		}
		orig, err := os.ReadFile(lzh[:len(lzh)-4])
		if err != nil {
			core.Infra("%v", err)
		}
		res, err := rl.DecodeB2(comp)
		if err != nil || !bytes.Equal(res.Data, orig) {
			core.Infra("ref lzhuf decoder does not reproduce golden %s: %v", lzh, err)
		}
		enc := rl.EncodeB2(orig)
		res2, err := rl.DecodeB2(enc)
		if err != nil || !bytes.Equal(res2.Data, orig) {
			core.Infra("ref lzhuf encoder does not round-trip %s: %v", lzh, err)
		}
		if !bytes.Equal(enc, comp) {
			fmt.Printf("note: ref encoder output differs from golden bytes for %s (informational)\n", filepath.Base(lzh))
		}
		n += 2
	}
	return n
}
