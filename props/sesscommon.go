package props

import (
	"bytes"
	"fmt"
	"strings"
	"sync"

	"github.com/la5nta/wl2k-go/fbb"

	"verif/ref/b2f"
	"verif/sess"
)

// ---- message variants shared by the session checks --------------------------------------------

func lcgText(n int, seed uint32) string {
	const letters = "etaoin shrdlucmfwypvbgkqjxz ETAOIN.,\n"
	b := make([]byte, n)
	x := seed*2654435761 + 12345
	for i := range b {
		x = x*1664525 + 1013904223
		b[i] = letters[(x>>24)%uint32(len(letters))]
	}
	s := string(b)
	return strings.ReplaceAll(s, "\n", "\r\n")
}

var csizeCache sync.Map

// bodyForCompressedSize finds a body for which the message (MID, default subject, no files)
// compresses to exactly target bytes.
func bodyForCompressedSize(mid string, target int) string {
	key := fmt.Sprintf("%s/%d", mid, target)
	if v, ok := csizeCache.Load(key); ok {
		return v.(string)
	}
	for seed := uint32(1); seed < 200; seed++ {
		for n := 1; n < 4000; n++ {
			body := lcgText(n, seed)
			m := sess.MsgSpec{MID: mid, Body: body}.Build("N0SRC")
			p, err := m.Proposal(fbb.Wl2kProposal)
			if err != nil {
				continue
			}
			if cs := p.CompressedSize(); cs == target {
				csizeCache.Store(key, body)
				return body
			} else if cs > target+8 {
				break
			}
		}
	}
	panic(fmt.Sprintf("no body found for compressed size %d", target))
}

var midCache sync.Map

// midForChecksum finds a MID (same prefix) for which the single-proposal block checksum of the
// default message is want.
func midForChecksum(base string, want int) string {
	from := VariantFrom[base[:1]]
	key := fmt.Sprintf("%s/%s/%d", base, from, want)
	if v, ok := midCache.Load(key); ok {
		return v.(string)
	}
	const digits = "0123456789ABCDEFGHIJKLMNOPQRSTUVWXYZabcdefghijklmnopqrstuvwxyz"
	n := len(digits)
	lineSum := func(mid string, us, cs int) int {
		sum := 0
		for _, c := range []byte(fmt.Sprintf("FC EM %s %d %d 0\r", mid, us, cs)) {
			sum += int(c)
		}
		return (-sum) & 0xff
	}
	sizes := func(mid string) (int, int, bool) {
		p, err := sess.MsgSpec{MID: mid}.Build(from).Proposal(fbb.Wl2kProposal)
		if err != nil {
			return 0, 0, false
		}
		return p.Size(), p.CompressedSize(), true
	}
	us, cs, _ := sizes(base)
	for i := 0; i < n*n*n*n; i++ {
		mid := base[:8] + string([]byte{digits[i/(n*n*n)%n], digits[i/(n*n)%n], digits[i/n%n], digits[i%n]})
		if lineSum(mid, us, cs) != want {
			continue // cheap pre-filter with the sizes of the previous candidate
		}
		u2, c2, ok := sizes(mid)
		if ok && lineSum(mid, u2, c2) == want {
			midCache.Store(key, mid)
			return mid
		}
		if ok {
			us, cs = u2, c2
		}
	}
	panic("no MID found for the wanted block checksum")
}

// VariantFrom maps the side letter of a MID to the callsign that sends it (set by each check).
var VariantFrom = map[string]string{"A": "N0AAA", "B": "N0BBB"}

// msgVariant returns the spec of variant v for the given MID.
func msgVariant(v int, mid string) sess.MsgSpec {
	s := sess.MsgSpec{MID: mid}
	lat := func(n int) string { return strings.Repeat("é", n) }
	switch v {
	case 0:
	case 1:
		s.Body = "x"
	case 2:
		s.Body = bodyForCompressedSize(mid, 250)
	case 3:
		s.Body = bodyForCompressedSize(mid, 251)
	case 4:
		s.Body = bodyForCompressedSize(mid, 375)
	case 5:
		s.Body = bodyForCompressedSize(mid, 376)
	case 6:
		s.Body = bodyForCompressedSize(mid, 500)
	case 7:
		s.Body = lcgText(2048, 7)
	case 8:
		s.Body = "Blåbærsyltetøy æøå ÿ\r\n"
	case 9:
		s.Files = []sess.FileSpec{{Name: "empty.bin", Data: []byte{}}}
	case 10:
		s.Files = []sess.FileSpec{{Name: "crlf.txt", Data: []byte("\r\n")}}
	case 11:
		s.Files = []sess.FileSpec{{Name: "nul.bin", Data: make([]byte, 40)}}
	case 12:
		s.Files = []sess.FileSpec{{Name: "blåbær.dat", Data: lcgBytes(300, 99, 0)}, {Name: "second.txt", Data: []byte("two")}}
	case 13:
		s.Subject = "//WL2K P/ priority " + mid
	case 14:
		s.Subject = "//WL2K O/ immediate " + mid
	case 15:
		s.Subject = "//WL2K Z/ flash " + mid
	case 16:
		s.Subject = "é"
	case 17:
		s.Subject = lat(10)
	case 18:
		s.Subject = lat(33)
	case 19:
		s.Subject = lat(34)
	case 20:
		s.Subject = lat(37)
	case 21:
		s.Body = bodyForCompressedSize(mid, 625)
	case 22:
		s.Body = lcgText(9000, 3) // several KB, > 4096-byte bufio buffers
	case 23:
		s.Subject = strings.Repeat("S", 100) // long ASCII title (> 80)
	case 24: // empty attachment followed by one non-empty
		s.Files = []sess.FileSpec{{Name: "empty.bin", Data: []byte{}}, {Name: "b.txt", Data: []byte("second attachment, should arrive intact")}}
	case 25: // empty attachment followed by two
		s.Files = []sess.FileSpec{{Name: "empty.bin", Data: []byte{}}, {Name: "b.txt", Data: []byte("second attachment, should arrive intact")}, {Name: "c.txt", Data: []byte("third")}}
	case 26: // a proposal line whose byte sum is 0 modulo 256 (block checksum 00)
		s.MID = midForChecksum(mid, 0)
	case 27: // block checksum FF
		s.MID = midForChecksum(mid, 0xff)
	case 28: // block checksum 80
		s.MID = midForChecksum(mid, 0x80)
	case 29: // incompressible: the compressed size exceeds the uncompressed size
		s.Files = []sess.FileSpec{{Name: "rnd.bin", Data: lcgBytes(2500, 77, 0)}}
	case 30: // incompressible and several chunks, larger than the 4096-byte reader buffers
		s.Files = []sess.FileSpec{{Name: "rnd.bin", Data: lcgBytes(5000, 78, 0)}}
	default:
		panic("no such variant")
	}
	return s
}

const nMsgVariants = 31

func midFor(side string, i int) string { return fmt.Sprintf("%sMSG%07d%c", side, i, 'A'+byte(i%26)) } // 12 alphanumerics

// msgSetShape returns the specs of message-set shape k for one side ("A"/"B").
func msgSetShape(k int, side string) []sess.MsgSpec {
	var out []sess.MsgSpec
	add := func(v int) { out = append(out, msgVariant(v, midFor(side, len(out)))) }
	switch {
	case k == 0:
	case k >= 1 && k <= 6: // 1..6 default messages
		for i := 0; i < k; i++ {
			add(0)
		}
	case k == 7: // 11 messages: three blocks
		for i := 0; i < 11; i++ {
			add(0)
		}
	case k == 8: // 16 messages of mixed precedence and distinct sizes
		for i := 0; i < 16; i++ {
			s := msgVariant(0, midFor(side, i))
			s.Body = lcgText(40+37*((i*7)%16), uint32(i+1))
			switch i {
			case 3:
				s.Subject = "//WL2K O/ immediate"
			case 9:
				s.Subject = "//WL2K P/ priority"
			case 12:
				s.Subject = "//WL2K Z/ flash"
			}
			out = append(out, s)
		}
	case k == 9: // mixed five
		for _, v := range []int{7, 1, 12, 13, 8} {
			add(v)
		}
	case k == 10: // short MID + equal sizes (tie-break by MID)
		out = append(out, msgVariant(0, side), msgVariant(0, side+"2"))
		a := msgVariant(1, side+"EQUALSIZE1")
		b := msgVariant(1, side+"EQUALSIZE2")
		out = append(out, a, b)
	case k >= 11 && k < 11+nMsgVariants: // each single variant alone
		add(k - 11)
	case k >= 11+nMsgVariants && k < 11+2*nMsgVariants: // variant followed by five defaults (turn-over)
		add(k - 11 - nMsgVariants)
		for i := 0; i < 5; i++ {
			add(0)
		}
	case k == 11+2*nMsgVariants: // MIDs that differ only in the case of their letters, and lower-case MIDs, in one block
		out = append(out, msgVariant(0, side+"casemid001"), msgVariant(1, side+"CASEMID001"), msgVariant(0, side+"lowcasemid1"))
	default:
		panic("no such shape")
	}
	return out
}

const nMsgShapes = 11 + 2*nMsgVariants + 1

// ---- wire parsing (by the independent reference) ----------------------------------------------

type wireItem struct {
	Line  string // non-empty for a line
	Frame *wireFrame
	Off   int // offset of the item in the stream
	End   int
}

type wireFrame struct {
	Title, Offset string
	HeaderLen     int
	Blocks        []int // block lengths
	Data          []byte
	Checksum      byte
	Complete      bool
}

// parseWire splits one direction's bytes into lines and SOH..EOT frames.
func parseWire(b []byte) []wireItem {
	var out []wireItem
	i := 0
	for i < len(b) {
		start := i
		if b[i] == b2f.SOH {
			f := &wireFrame{}
			it := wireItem{Frame: f, Off: start}
			if i+1 >= len(b) {
				it.End = len(b)
				out = append(out, it)
				break
			}
			f.HeaderLen = int(b[i+1])
			end := i + 2 + f.HeaderLen
			if end > len(b) {
				it.End = len(b)
				out = append(out, it)
				break
			}
			parts := bytes.SplitN(b[i+2:end], []byte{0}, 3)
			if len(parts) >= 2 {
				f.Title, f.Offset = string(parts[0]), string(parts[1])
			}
			i = end
			for i < len(b) {
				if b[i] == b2f.STX && i+1 < len(b) {
					n := int(b[i+1])
					if n == 0 {
						n = 256
					}
					if i+2+n > len(b) {
						i = len(b)
						break
					}
					f.Blocks = append(f.Blocks, n)
					f.Data = append(f.Data, b[i+2:i+2+n]...)
					i += 2 + n
				} else if b[i] == b2f.EOT && i+1 < len(b) {
					f.Checksum = b[i+1]
					f.Complete = true
					i += 2
					break
				} else {
					i = len(b)
					break
				}
			}
			it.End = i
			out = append(out, it)
			continue
		}
		j := bytes.IndexByte(b[i:], '\r')
		if j < 0 {
			out = append(out, wireItem{Line: string(b[i:]) + "<no CR>", Off: start, End: len(b)})
			break
		}
		out = append(out, wireItem{Line: string(b[i : i+j]), Off: start, End: i + j + 1})
		i += j + 1
	}
	return out
}

func truthOf(specs []sess.MsgSpec, from string) map[string]b2f.Msg {
	t := map[string]b2f.Msg{}
	for _, s := range specs {
		m := s.Build(from)
		t[s.MID] = b2f.Msg{MID: s.MID, Subject: m.Subject(), Data: sess.MsgBytes(m)}
	}
	return t
}
