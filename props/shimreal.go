package props

import (
	"encoding/json"
	"fmt"
	"os"
	"sort"
	"sync"

	"verif/shimprogs"
)

func init() { Registry["shimreal"] = ShimReal }

// ShimReal runs every shim-conformance micro-program free-running on the real Go runtime many
// times and prints the outcome sets as JSON (consumed by the govs side, `shimtest`).
func ShimReal(args []string) {
	runs := 200
	out := map[string][]string{}
	for _, p := range shimprogs.Programs {
		set := map[string]bool{}
		var mu sync.Mutex
		var wg sync.WaitGroup
		sem := make(chan struct{}, 32)
		runs := runs
		if p.Timing() {
			runs, sem = 8, make(chan struct{}, 1)
		}
		for i := 0; i < runs; i++ {
			wg.Add(1)
			sem <- struct{}{}
			go func() {
				defer wg.Done()
				o := p.F()
				mu.Lock()
				set[o] = true
				mu.Unlock()
				<-sem
			}()
		}
		wg.Wait()
		for o := range set {
			out[p.Name] = append(out[p.Name], o)
		}
		sort.Strings(out[p.Name])
	}
	b, _ := json.Marshal(out)
	fmt.Fprintln(os.Stdout, string(b))
}
