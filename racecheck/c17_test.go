// Package racecheck is the free-running complement of the C17 check: the same harness bodies (two
// real fbb.Sessions with status updaters, 1-5 messages each way, three sizes, paced links with and
// without a transmit-buffer length) on the REAL runtime under Go's race detector. The controlled
// scheduler's hand-offs are happens-before edges, so the detector is blind there; here it is not.
// This pass samples schedules - it can only add race reports (the detector has no false
// positives), it decides nothing by its silence. Run by `vcheck C17race` (go test -race).
package racecheck

import (
	"fmt"
	"net"
	"os"
	"strconv"
	"sync"
	"testing"
	"time"

	"github.com/la5nta/wl2k-go/fbb"

	"verif/sess"
)

type updater struct {
	mu   sync.Mutex
	recs []fbb.Status
}

func (u *updater) UpdateStatus(s fbb.Status) {
	u.mu.Lock()
	u.recs = append(u.recs, s)
	u.mu.Unlock()
}

type pacedConn struct {
	net.Conn
	delay time.Duration
}

func (c pacedConn) Write(p []byte) (int, error) {
	if c.delay > 0 {
		time.Sleep(c.delay)
	}
	return c.Conn.Write(p)
}

type txConn struct {
	pacedConn
	mu sync.Mutex
	n  int
}

func (c *txConn) TxBufferLen() int {
	c.mu.Lock()
	defer c.mu.Unlock()
	if c.n > 0 {
		c.n -= 150
	}
	return c.n
}

func body(size, i int) string {
	n := map[int]int{0: 0, 1: 260, 2: 3800}[size]
	if n == 0 {
		return ""
	}
	const letters = "etaoin shrdlucmfwypvbgkqjxz ETAOIN.,"
	b := make([]byte, n)
	x := uint32(i+1)*2654435761 + 99
	for k := range b {
		x = x*1664525 + 1013904223
		b[k] = letters[(x>>24)%uint32(len(letters))]
	}
	return string(b) + "\r\n"
}

func exchange(t *testing.T, msgsA, msgsB, size int, delay time.Duration, tx bool) {
	a, b := net.Pipe()
	conns := [2]net.Conn{pacedConn{a, delay}, pacedConn{b, delay}}
	if tx {
		conns = [2]net.Conn{&txConn{pacedConn: pacedConn{a, delay}, n: 900}, &txConn{pacedConn: pacedConn{b, delay}, n: 900}}
	}
	calls := [2]string{"N0AAA", "N0BBB"}
	var boxes [2]*sess.Box
	for i := range boxes {
		boxes[i] = sess.NewBox(calls[i])
	}
	for k := 0; k < msgsA; k++ {
		boxes[0].AddOut(sess.MsgSpec{MID: fmt.Sprintf("AMSG%08d", k), Body: body(size, k)}.Build(calls[0]))
	}
	for k := 0; k < msgsB; k++ {
		boxes[1].AddOut(sess.MsgSpec{MID: fmt.Sprintf("BMSG%08d", k), Body: body(size, k+7)}.Build(calls[1]))
	}
	var wg sync.WaitGroup
	for i := 0; i < 2; i++ {
		i := i
		wg.Add(1)
		go func() {
			defer wg.Done()
			s := fbb.NewSession(calls[i], calls[1-i], "AA00aa", boxes[i])
			s.SetLogger(sess.Discard)
			s.IsMaster(i == 0)
			s.SetStatusUpdater(&updater{})
			s.Exchange(conns[i])
			conns[i].Close()
		}()
	}
	done := make(chan struct{})
	go func() { wg.Wait(); close(done) }()
	select {
	case <-done:
	case <-time.After(60 * time.Second):
		t.Errorf("exchange %d/%d size %d delay %v tx %v did not finish in 60 s", msgsA, msgsB, size, delay, tx)
	}
	time.Sleep(2 * time.Millisecond) // let the asynchronous Done reporters finish inside this exchange
}

func TestC17FreeRunning(t *testing.T) {
	rounds, _ := strconv.Atoi(os.Getenv("RACECHECK_ROUNDS"))
	if rounds <= 0 {
		rounds = 1
	}
	type scn struct {
		a, b, size int
		delay      time.Duration
		tx         bool
	}
	var scns []scn
	for _, m := range [][2]int{{1, 0}, {2, 0}, {5, 0}, {1, 1}, {0, 3}, {3, 3}} {
		for size := 0; size < 3; size++ {
			for _, d := range []time.Duration{0, 200 * time.Microsecond, 15 * time.Millisecond} {
				if d > time.Millisecond && (size != 2 || m[0]+m[1] > 2) {
					continue // the slow link only with the big message (reports driven by the 250 ms ticker)
				}
				scns = append(scns, scn{m[0], m[1], size, d, false}, scn{m[0], m[1], size, d, true})
			}
		}
	}
	for r := 0; r < rounds; r++ {
		var wg sync.WaitGroup
		sem := make(chan struct{}, 8)
		for _, s := range scns {
			s := s
			wg.Add(1)
			sem <- struct{}{}
			go func() {
				defer wg.Done()
				defer func() { <-sem }()
				exchange(t, s.a, s.b, s.size, s.delay, s.tx)
			}()
		}
		wg.Wait()
	}
	t.Logf("free-running exchanges: %d", rounds*len(scns))
}
