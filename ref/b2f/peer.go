// Package b2f is an independently written strict B2F peer and wire parser, written from
// /repo/docs/F6FBB-B2F (protocole.html, sid.html) and DESIGN.md Appendix E.2/H, not from the fbb
// package. It validates every byte the other side sends and can vary every encoding choice the
// protocol leaves to a conforming station.
package b2f

import (
	"bufio"
	"bytes"
	"fmt"
	"io"
	"net"
	"regexp"
	"sort"
	"strconv"
	"strings"

	rl "verif/ref/lzhuf"
)

const (
	SOH = 1
	STX = 2
	EOT = 4
)

// Msg is a message the peer offers, or ground truth about a message the other side holds.
type Msg struct {
	MID     string
	Subject string // decoded subject (precedence is derived from it)
	Data    []byte // raw message bytes
}

func (m Msg) Compressed() []byte { return rl.EncodeB2(m.Data) }

func Precedence(subject string) int {
	switch {
	case strings.Contains(subject, "//WL2K Z/"):
		return 0
	case strings.Contains(subject, "//WL2K O/"):
		return 1
	case strings.Contains(subject, "//WL2K P/"):
		return 2
	}
	return 3
}

// Choices are the encoding decisions a conforming peer is free to make. Zero value = defaults.
type Choices struct {
	BlockSize   int // data block size 1..256; 0 = 250; -1 = cycling 1,2,3,...
	AcceptSpell int // index into AcceptSpellings ("mixed" = last)
	RejectSpell int
	DeferSpell  int
	Comments    int    // placement of comment / ;PM lines, see commentMenu
	MOTD        int    // 0 none, 1 two text lines, 2 a "*** MTD Stats" style line, 3 empty lines
	FW          int    // 0 ";FW: CALL", 1 with aux|hash items, 2 no ;FW line
	SID         int    // index into SIDs
	EarlyFQ     bool   // CMS style: FQ right after own last block instead of turning over
	DupMID      bool   // propose the first message twice in one block (Radio-Only gateway style)
	LowerHex    bool   // block checksum in lower-case hex
	PropCM      bool   // message type CM instead of EM in proposals
	Challenge   string // if master: send ;PQ: <challenge>
	HoldTurns   int    // answer FF on the first n own turns although messages are queued (they "arrive" later)
}

var AcceptSpellings = []string{"+", "Y", "y", "!0", "A0", "a0", "!000000", "H", "h"}
var RejectSpellings = []string{"-", "N", "n", "R", "r"}
var DeferSpellings = []string{"=", "L", "l"}
var SIDs = []string{"[RMS Express-1.2.35.0-B2FHM$]", "[WL2K-5.0-B2FWIHJM$]", "[FBB-7.0-FHMB2$]", "[x-B2F$]", "[wl2k-2.8.4.8-b2fwihjm$]", "[Paclink-unix-0.5-B2FIHM$]"}

// Complaint is a rule the other side's bytes broke.
type Complaint struct {
	Rule string
	Got  string
}

type Transfer struct {
	MID  string
	Data []byte
}

// Peer is one strict station.
type Peer struct {
	Master   bool
	MyCall   string
	Other    string
	Outbox   []Msg                 // what the peer offers (in this order; it sorts as the protocol asks)
	Truth    map[string]Msg        // ground truth about the other side's queue (by MID), for validation
	Answer   func(mid string) byte // '+', '-', '=' for an inbound proposal
	C        Choices
	Password string // expected secure-login password of the other side (when Challenge is set)

	// results
	Complaints     []Complaint
	Received       []Transfer      // transfers received and fully validated
	Proposed       [][]string      // the other side's proposal blocks (MIDs)
	AnswersGot     map[string]byte // normalised answers to the peer's proposals
	SentOK         []string        // own MIDs transferred and implicitly confirmed by the next turn
	SentUnconf     []string        // own MIDs transferred but never confirmed
	Lines          []string        // every line received
	Fatal          string          // why the peer stopped early, if it did
	Done           bool            // session reached FQ in an orderly way
	HandshakeLines []string
	PRSeen         string
	FWSeen         string
	HeldMIDs       map[string]bool // proposals the peer answered H (accepted, will be held): it expects the transfer
	lastProp       map[string]prop
	turns          int

	rd *bufio.Reader
	c  net.Conn
}

func (p *Peer) complain(rule, got string) {
	if len(got) > 120 {
		got = got[:120] + "…"
	}
	p.Complaints = append(p.Complaints, Complaint{rule, got})
}

type fatal struct{ why string }

func (p *Peer) die(format string, a ...any) { panic(fatal{fmt.Sprintf(format, a...)}) }

func (p *Peer) line() string {
	s, err := p.rd.ReadString('\r')
	if err != nil {
		p.die("read error while expecting a line: %v (partial %q)", err, s)
	}
	s = s[:len(s)-1]
	for _, ch := range []byte(s) {
		if ch == '\n' {
			continue // some stations send CRLF; tolerated
		}
		if ch < 0x20 || ch > 0x7e {
			p.complain("line contains a non-printable or non-ASCII byte", s)
			break
		}
	}
	s = strings.Trim(s, "\n")
	p.Lines = append(p.Lines, s)
	if strings.HasPrefix(s, "***") {
		p.die("remote reported: %s", s)
	}
	return s
}

func (p *Peer) send(format string, a ...any) {
	fmt.Fprintf(p.c, format, a...)
}

func (p *Peer) comment(where int) {
	switch {
	case p.C.Comments == 1 && where == 1:
		p.send("; a comment before the proposals\r")
	case p.C.Comments == 2 && where == 1:
		p.send(";PM: %s ABCDEFGHIJKL 123 someone@example.org A subject with spaces\r", p.Other)
	case p.C.Comments == 3 && where == 2:
		p.send(";WARNING: a comment before the answer\r")
	case p.C.Comments == 4 && where == 3:
		p.send("; a comment before FF/FQ\r")
	case p.C.Comments == 5 && where == 4:
		p.send("; a comment inside the proposal block\r")
	case p.C.Comments == 6:
		p.send("; comments everywhere (%d)\r", where)
	}
}

var reSID = regexp.MustCompile(`^\[([^\[\]-]*)-(.*-)?([A-Za-z0-9$]+)\]$`)
var reDE = regexp.MustCompile(`^; (\S+) DE (\S+) \(([^)]*)\)(>?)$`)
var reProp = regexp.MustCompile(`^F([A-D]) (\S+) (\S+) (\d+) (\d+) (\d+)$`)

func (p *Peer) checkSID(s string) {
	m := reSID.FindStringSubmatch(s)
	if m == nil {
		p.complain("SID is not of the form [name-version-flags]", s)
		return
	}
	flags := strings.ToUpper(m[3])
	if !strings.Contains(flags, "B2") {
		p.complain("SID does not announce B2", s)
	}
	if !strings.Contains(flags, "F") {
		p.complain("SID does not announce F", s)
	}
	if i := strings.Index(flags, "$"); i >= 0 && i != len(flags)-1 {
		p.complain("SID: $ must be the last flag", s)
	}
}

// Run plays the peer's side of one session on c.
func (p *Peer) Run(c net.Conn) {
	p.c = c
	p.rd = bufio.NewReader(c)
	p.AnswersGot = map[string]byte{}
	defer func() {
		if e := recover(); e != nil {
			if f, ok := e.(fatal); ok {
				p.Fatal = f.why
				c.Close()
				return
			}
			panic(e)
		}
	}()
	p.handshake()
	myTurn := !p.Master
	pending := p.sortedOutbox()
	remoteNoMsgs := false
	for {
		if myTurn {
			quit := p.myTurn(&pending, remoteNoMsgs)
			if quit {
				break
			}
		} else {
			quit, none := p.theirTurn()
			if quit {
				break
			}
			remoteNoMsgs = none
		}
		myTurn = !myTurn
	}
	p.Done = true
	c.Close()
}

func (p *Peer) sidLine() string { return SIDs[p.C.SID%len(SIDs)] }

func (p *Peer) fwLine() string {
	switch p.C.FW {
	case 1:
		return fmt.Sprintf(";FW: %s %s-5|12345678 AUX1\r", p.MyCall, p.MyCall)
	case 2:
		return ""
	}
	return fmt.Sprintf(";FW: %s\r", p.MyCall)
}

func (p *Peer) handshake() {
	if p.Master {
		switch p.C.MOTD {
		case 1:
			p.send("Welcome to the %s test system\rsecond line of text\r", p.MyCall)
		case 2:
			p.send("*** MTD Stats Total connects = 2580 Total messages = 3900\r")
		case 3:
			p.send("\r\rhello\r")
		}
		p.send("%s", p.fwLine())
		p.send("%s\r", p.sidLine())
		if p.C.Challenge != "" {
			p.send(";PQ: %s\r", p.C.Challenge)
		}
		p.send("; %s DE %s (AA00aa)>\r", p.Other, p.MyCall)
		p.readTheirHandshake(false)
	} else {
		p.readTheirHandshake(true)
		p.send("%s", p.fwLine())
		p.send("%s\r", p.sidLine())
		p.send("; %s DE %s (AA00aa)\r", p.Other, p.MyCall)
	}
}

// readTheirHandshake validates ;FW, SID, [;PR], "; x DE y (loc)" from the other side. If the other
// side is master its last line carries the prompt.
func (p *Peer) readTheirHandshake(theyAreMaster bool) {
	sawSID, sawDE := false, false
	for !sawDE {
		s := p.line()
		p.HandshakeLines = append(p.HandshakeLines, s)
		switch {
		case strings.HasPrefix(s, ";FW:"):
			p.FWSeen = s
			if !strings.HasPrefix(s, ";FW: ") || len(strings.Fields(s[4:])) == 0 {
				p.complain(";FW line must list at least one address after ';FW: '", s)
			}
			for _, f := range strings.Fields(s[4:]) {
				if strings.Count(f, "|") > 1 {
					p.complain(";FW item has more than one | separator", s)
				}
			}
			if strings.Contains(s[4:], "  ") || strings.HasSuffix(s, " ") {
				p.complain(";FW line has empty items", s)
			}
		case strings.HasPrefix(s, "["):
			if sawSID {
				p.complain("second SID line", s)
			}
			sawSID = true
			p.checkSID(s)
		case strings.HasPrefix(s, ";PR:"):
			p.PRSeen = s
			if !regexp.MustCompile(`^;PR: \d{8}$`).MatchString(s) {
				p.complain(";PR must carry exactly 8 digits", s)
			}
			if !sawSID {
				p.complain(";PR before the SID", s)
			}
		case strings.HasPrefix(s, "; "):
			m := reDE.FindStringSubmatch(s)
			if m == nil {
				p.complain("handshake comment is not '; target DE call (locator)'", s)
			} else {
				if m[1] != p.MyCall || m[2] != p.Other {
					p.complain("handshake comment names the wrong stations", s)
				}
				if (m[4] == ">") != theyAreMaster {
					p.complain("prompt '>' must be sent by the master only", s)
				}
			}
			sawDE = true
		default:
			if theyAreMaster && !sawSID {
				continue // MOTD text from a master is free-form
			}
			p.complain("unexpected line in handshake", s)
			if strings.HasPrefix(s, "F") {
				p.die("protocol command before the handshake was complete: %q", s)
			}
		}
	}
	if !sawSID {
		p.complain("no SID in handshake", "")
	}
	if p.FWSeen == "" {
		p.complain("no ;FW line in handshake", "")
	}
	if p.C.Challenge != "" && p.PRSeen == "" {
		p.complain("no ;PR answer to the ;PQ challenge", "")
	}
}

type outItem struct {
	m    Msg
	comp []byte
	prec int
}

func (p *Peer) sortedOutbox() []outItem {
	var items []outItem
	for _, m := range p.Outbox {
		items = append(items, outItem{m, m.Compressed(), Precedence(m.Subject)})
	}
	_ = net.Conn(nil)
	sort.SliceStable(items, func(i, j int) bool {
		if items[i].prec != items[j].prec {
			return items[i].prec < items[j].prec
		}
		if len(items[i].comp) != len(items[j].comp) {
			return len(items[i].comp) < len(items[j].comp)
		}
		return items[i].m.MID < items[j].m.MID
	})
	return items
}

func asciiTitle(s string) string {
	var b strings.Builder
	for _, r := range s {
		if r >= 0x20 && r < 0x7f {
			b.WriteRune(r)
		} else {
			b.WriteByte('?')
		}
	}
	t := b.String()
	if len(t) > 80 {
		t = t[:80]
	}
	if t == "" {
		t = "No title"
	}
	return t
}

// myTurn sends one block (or FF/FQ). Returns true if the session is over.
func (p *Peer) myTurn(pending *[]outItem, remoteNoMsgs bool) bool {
	p.turns++
	if len(*pending) == 0 || p.turns <= p.C.HoldTurns && !remoteNoMsgs {
		if len(*pending) > 0 {
			p.comment(3)
			p.send("FF\r")
			return false
		}
		p.comment(3)
		if remoteNoMsgs {
			p.send("FQ\r")
			return true
		}
		p.send("FF\r")
		return false
	}
	block := *pending
	if len(block) > 5 {
		block = block[:5]
	}
	if p.C.DupMID && len(block) < 5 {
		block = append(append([]outItem{}, block...), block[0])
	}
	p.comment(1)
	sum := 0
	typ := "EM"
	if p.C.PropCM {
		typ = "CM"
	}
	for i, it := range block {
		ln := fmt.Sprintf("FC %s %s %d %d 0", typ, it.m.MID, len(it.m.Data), len(it.comp))
		p.send("%s\r", ln)
		for _, ch := range []byte(ln) {
			sum += int(ch)
		}
		sum += '\r'
		if i == 0 {
			p.comment(4)
		}
	}
	ck := (-sum) & 0xff
	if p.C.LowerHex {
		p.send("F> %02x\r", ck)
	} else {
		p.send("F> %02X\r", ck)
	}
	// read the answer
	var fs string
	for {
		s := p.line()
		if strings.HasPrefix(s, ";") {
			continue
		}
		fs = s
		break
	}
	if !strings.HasPrefix(fs, "FS ") {
		p.complain("expected 'FS <answers>' after a proposal block", fs)
		p.die("no proposal answer: %q", fs)
	}
	ans, ok := parseAnswers(fs[3:], len(block))
	if !ok {
		p.complain("FS line must hold exactly one answer per proposal", fs)
		p.die("unusable proposal answer %q for %d proposals", fs, len(block))
	}
	var transferred []string
	seen := map[string]bool{}
	for i, it := range block {
		a := ans[i]
		first := !seen[it.m.MID]
		seen[it.m.MID] = true
		if first {
			p.AnswersGot[it.m.MID] = a.kind
		}
		if a.kind == '+' {
			if a.offset != 0 {
				p.complain("offset requested although none was offered", fs)
			}
			p.sendTransfer(it)
			transferred = append(transferred, it.m.MID)
		}
	}
	// everything answered + or - leaves the pending list, = stays for a later session
	var rest []outItem
	inBlock := map[string]bool{}
	for _, it := range block {
		inBlock[it.m.MID] = true
	}
	for _, it := range *pending {
		if !inBlock[it.m.MID] {
			rest = append(rest, it)
		}
	}
	*pending = rest
	if p.C.EarlyFQ && len(rest) == 0 && remoteNoMsgs {
		// CMS style: no turn-over after the last block
		p.send("FQ\r")
		p.SentUnconf = append(p.SentUnconf, transferred...)
		return true
	}
	// confirmation = first byte of the other side's next turn
	b, err := p.rd.Peek(1)
	if err != nil {
		p.SentUnconf = append(p.SentUnconf, transferred...)
		p.die("connection ended before the block was confirmed: %v", err)
	}
	if b[0] == 'F' || b[0] == ';' {
		p.SentOK = append(p.SentOK, transferred...)
	} else {
		p.SentUnconf = append(p.SentUnconf, transferred...)
	}
	return false
}

type answer struct {
	kind   byte // '+', '-', '='
	offset int
}

func parseAnswers(s string, n int) ([]answer, bool) {
	var out []answer
	for len(s) > 0 {
		c := s[0]
		s = s[1:]
		switch c {
		case '+', 'Y', 'y', 'H', 'h':
			out = append(out, answer{'+', 0})
		case '-', 'N', 'n', 'R', 'r':
			out = append(out, answer{'-', 0})
		case '=', 'L', 'l':
			out = append(out, answer{'=', 0})
		case '!', 'A', 'a':
			i := 0
			for i < len(s) && s[i] >= '0' && s[i] <= '9' {
				i++
			}
			if i == 0 {
				return nil, false
			}
			off, _ := strconv.Atoi(s[:i])
			s = s[i:]
			out = append(out, answer{'+', off})
		default:
			return nil, false
		}
	}
	return out, len(out) == n
}

func (p *Peer) sendTransfer(it outItem) {
	title := asciiTitle(it.m.Subject)
	var b bytes.Buffer
	b.WriteByte(SOH)
	b.WriteByte(byte(len(title) + 1 + 2))
	b.WriteString(title)
	b.WriteByte(0)
	b.WriteString("0")
	b.WriteByte(0)
	data := it.comp
	sum := 0
	k := 0
	for len(data) > 0 {
		n := p.C.BlockSize
		switch {
		case n == 0:
			n = 250
		case n < 0:
			k++
			n = (k-1)%256 + 1
		}
		if n > len(data) {
			n = len(data)
		}
		b.WriteByte(STX)
		b.WriteByte(byte(n)) // 256 -> 0
		b.Write(data[:n])
		for _, ch := range data[:n] {
			sum += int(ch)
		}
		data = data[n:]
	}
	b.WriteByte(EOT)
	b.WriteByte(byte(-sum & 0xff))
	p.c.Write(b.Bytes())
}

// theirTurn reads one block from the other side. Returns (quit, noMessages).
func (p *Peer) theirTurn() (bool, bool) {
	var props []prop
	sum := 0
	for {
		s := p.line()
		if strings.HasPrefix(s, ";") {
			continue
		}
		switch {
		case s == "FF":
			if len(props) > 0 {
				p.complain("FF inside a proposal block", s)
			}
			return false, true
		case s == "FQ":
			if len(props) > 0 {
				p.complain("FQ inside a proposal block", s)
			}
			// nothing may follow FQ
			if b, err := p.rd.Peek(1); err == nil {
				p.complain("bytes after FQ", fmt.Sprintf("%q", b))
			}
			return true, true
		case strings.HasPrefix(s, "F> "), s == "F>":
			if len(props) == 0 {
				p.complain("F> without proposals", s)
			}
			want := fmt.Sprintf("%02X", (-sum)&0xff)
			if len(s) != 5 || !strings.EqualFold(s[3:], want) {
				p.complain("block checksum must be two hex digits, the two's complement of the byte sum of the proposal lines incl. CR", s+" (want F> "+want+")")
			}
			goto answer
		default:
			m := reProp.FindStringSubmatch(s)
			if m == nil {
				p.complain("not a valid proposal line 'FC EM <mid> <usize> <csize> 0'", s)
				p.die("unparseable line in proposal block: %q", s)
			}
			if m[1] != "C" && m[1] != "D" {
				p.complain("proposal code must be C (or D for gzip)", s)
			}
			if m[2] != "EM" && m[2] != "CM" {
				p.complain("message type must be EM or CM", s)
			}
			if len(m[3]) > 12 {
				p.complain("MID longer than 12 characters", s)
			}
			us, _ := strconv.Atoi(m[4])
			cs, _ := strconv.Atoi(m[5])
			props = append(props, prop{m[3], us, cs, m[1][0]})
			for _, ch := range []byte(s) {
				sum += int(ch)
			}
			sum += '\r'
			if len(props) > 5 {
				p.complain("more than five proposals in a block", s)
			}
		}
	}
answer:
	var mids []string
	for i, pr := range props {
		mids = append(mids, pr.mid)
		t, known := p.Truth[pr.mid]
		if p.Truth != nil {
			if !known {
				p.complain("proposal for a MID the station does not hold", pr.mid)
			} else if pr.usize != len(t.Data) {
				p.complain(fmt.Sprintf("proposal announces uncompressed size %d, message has %d bytes", pr.usize, len(t.Data)), pr.mid)
			}
		}
		if i > 0 && p.Truth != nil {
			a, b := props[i-1], pr
			pa, pb := Precedence(p.Truth[a.mid].Subject), Precedence(p.Truth[b.mid].Subject)
			if pa > pb || pa == pb && a.csize > b.csize {
				p.complain("proposals are not in precedence-then-size order", fmt.Sprintf("%s (prec %d, %d bytes) before %s (prec %d, %d bytes)", a.mid, pa, a.csize, b.mid, pb, b.csize))
			}
		}
	}
	// order across blocks: nothing offered now may sort before something offered earlier
	if p.Truth != nil && len(p.Proposed) > 0 && len(props) > 0 {
		prevBlock := p.Proposed[len(p.Proposed)-1]
		lastMid := prevBlock[len(prevBlock)-1]
		if lp, ok := p.lastProp[lastMid]; ok {
			pa, pb := Precedence(p.Truth[lastMid].Subject), Precedence(p.Truth[props[0].mid].Subject)
			if pa > pb || pa == pb && lp.csize > props[0].csize {
				p.complain("proposal blocks are not in precedence-then-size order across blocks", fmt.Sprintf("%s (prec %d, %d bytes) in an earlier block than %s (prec %d, %d bytes)", lastMid, pa, lp.csize, props[0].mid, pb, props[0].csize))
			}
		}
	}
	if p.lastProp == nil {
		p.lastProp = map[string]prop{}
	}
	for _, pr := range props {
		p.lastProp[pr.mid] = pr
	}
	p.Proposed = append(p.Proposed, mids)
	// answer
	p.comment(2)
	var sb strings.Builder
	kinds := make([]byte, len(props))
	seen := map[string]bool{}
	for i, pr := range props {
		k := byte('+')
		if p.Answer != nil {
			k = p.Answer(pr.mid)
		}
		if seen[pr.mid] {
			k = '='
		}
		seen[pr.mid] = true
		kinds[i] = k
		switch k {
		case '+':
			sp := spell(AcceptSpellings, p.C.AcceptSpell, i)
			if sp == "H" || sp == "h" {
				if p.HeldMIDs == nil {
					p.HeldMIDs = map[string]bool{}
				}
				p.HeldMIDs[pr.mid] = true
			}
			sb.WriteString(sp)
		case '-':
			sb.WriteString(spell(RejectSpellings, p.C.RejectSpell, i))
		default:
			sb.WriteString(spell(DeferSpellings, p.C.DeferSpell, i))
		}
	}
	p.send("FS %s\r", sb.String())
	for i, pr := range props {
		if kinds[i] == '+' {
			p.readTransfer(pr)
		}
	}
	return false, false
}

func spell(table []string, choice, pos int) string {
	if choice >= len(table) { // mixed: cycle through all spellings by position
		return table[pos%len(table)]
	}
	return table[choice]
}

type prop struct {
	mid          string
	usize, csize int
	code         byte
}

func (p *Peer) rb(what string) byte {
	b, err := p.rd.ReadByte()
	if err != nil {
		p.die("connection ended inside a transfer (%s): %v", what, err)
	}
	return b
}

func (p *Peer) readTransfer(pr prop) {
	if b := p.rb("SOH"); b != SOH {
		if b == '*' {
			s, _ := p.rd.ReadString('\r')
			p.die("remote reported: *%s", strings.TrimSpace(s))
		}
		p.complain("transfer must start with SOH", fmt.Sprintf("0x%02x for %s", b, pr.mid))
		p.die("no SOH")
	}
	hl := int(p.rb("header length"))
	hdr := make([]byte, hl)
	if _, err := io.ReadFull(p.rd, hdr); err != nil {
		p.die("connection ended inside a transfer header: %v", err)
	}
	parts := bytes.Split(hdr, []byte{0})
	if len(parts) != 3 || len(parts[2]) != 0 {
		p.complain("header must be title NUL offset NUL with len = |title|+|offset|+2", fmt.Sprintf("%q", hdr))
		p.die("bad transfer header")
	}
	title, off := parts[0], parts[1]
	if len(title) < 1 || len(title) > 80 {
		p.complain("title must be 1..80 bytes", fmt.Sprintf("%d bytes: %q", len(title), title))
	}
	for _, ch := range title {
		if ch < 0x20 || ch > 0x7e {
			p.complain("title must be printable ASCII", fmt.Sprintf("%q", title))
			break
		}
	}
	if len(off) < 1 || len(off) > 6 || string(off) != "0" {
		p.complain("offset must be 1..6 digits and equal the requested offset 0", fmt.Sprintf("%q", off))
	}
	var data []byte
	sum := 0
	for {
		switch b := p.rb("block type"); b {
		case STX:
			n := int(p.rb("block length"))
			if n == 0 {
				n = 256
			}
			blk := make([]byte, n)
			if _, err := io.ReadFull(p.rd, blk); err != nil {
				p.die("connection ended inside a data block: %v", err)
			}
			data = append(data, blk...)
			for _, ch := range blk {
				sum += int(ch)
			}
			if len(data) > pr.csize {
				p.complain("more data than the proposed compressed size", fmt.Sprintf("%d > %d for %s", len(data), pr.csize, pr.mid))
				p.die("transfer overruns its compressed size")
			}
		case EOT:
			ck := int(p.rb("checksum"))
			if (sum+ck)&0xff != 0 {
				p.complain("EOT checksum must make the data byte sum zero modulo 256", fmt.Sprintf("%02x", ck))
			}
			goto done
		default:
			p.complain("expected STX or EOT", fmt.Sprintf("0x%02x", b))
			p.die("bad framing")
		}
	}
done:
	if len(data) != pr.csize {
		p.complain("transfer size differs from the proposed compressed size", fmt.Sprintf("%d != %d for %s", len(data), pr.csize, pr.mid))
	}
	if pr.code == 'D' {
		p.Received = append(p.Received, Transfer{pr.mid, nil})
		return
	}
	res, err := rl.DecodeB2(data)
	if err != nil {
		p.complain("payload is not CRC-16 + size + canonical LZHUF stream", err.Error())
		return
	}
	if len(res.Data) != pr.usize {
		p.complain("decoded size differs from the proposed uncompressed size", fmt.Sprintf("%d != %d", len(res.Data), pr.usize))
	}
	if t, ok := p.Truth[pr.mid]; ok && !bytes.Equal(res.Data, t.Data) {
		p.complain("decoded message differs from the queued message", pr.mid)
	}
	if mid := headerValue(res.Data, "Mid"); mid != pr.mid {
		p.complain("decoded message carries a different MID than proposed", fmt.Sprintf("%q vs %q", mid, pr.mid))
	}
	p.Received = append(p.Received, Transfer{pr.mid, res.Data})
}

func headerValue(msg []byte, key string) string {
	for _, ln := range strings.Split(string(msg), "\r\n") {
		if ln == "" {
			break
		}
		if i := strings.Index(ln, ":"); i > 0 && strings.EqualFold(ln[:i], key) {
			return strings.TrimSpace(ln[i+1:])
		}
	}
	return ""
}
