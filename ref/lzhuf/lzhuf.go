// Package lzhuf is an independent implementation of the canonical LZHUF codec (Yoshizaki/Okumura,
// as shipped with FBB/JNOS; parameters of the B/B1/B2 protocols), written from DESIGN.md
// Appendix E.1 and not from /repo. It is the reference for C06/C07/C08/C04/C05.
package lzhuf

import (
	"encoding/binary"
	"errors"
)

const (
	N         = 2048
	F         = 60
	Threshold = 2
	NIL       = N
	NChar     = 256 - Threshold + F // 314
	T         = NChar*2 - 1         // 627
	R         = T - 1               // 626
	MaxFreq   = 0x8000
)

var (
	ErrTruncated = errors.New("ref lzhuf: ran out of bits before the declared size")
	ErrOverrun   = errors.New("ref lzhuf: final match runs past the declared size")
	ErrNegative  = errors.New("ref lzhuf: negative size")
	ErrHeader    = errors.New("ref lzhuf: short header")
	ErrCRC       = errors.New("ref lzhuf: CRC mismatch")
)

// position code, derived from the canonical length histogram
var (
	pLen  [64]uint
	pCode [64]uint
	dCode [256]uint
	dLen  [256]uint
)

func init() {
	hist := []struct{ l, n int }{{3, 1}, {4, 3}, {5, 8}, {6, 12}, {7, 24}, {8, 16}}
	i := 0
	code := uint(0)
	for _, h := range hist {
		for k := 0; k < h.n; k++ {
			pLen[i] = uint(h.l)
			pCode[i] = code
			code += 1 << (8 - uint(h.l))
			i++
		}
	}
	if i != 64 || code != 256 {
		panic("position code derivation")
	}
	for b := 0; b < 256; b++ {
		for j := 0; j < 64; j++ {
			if uint(b)>>(8-pLen[j]) == pCode[j]>>(8-pLen[j]) {
				dCode[b] = uint(j)
				dLen[b] = pLen[j]
				break
			}
		}
	}
}

type huff struct {
	freq [T + 1]uint
	prnt [T + NChar]int
	son  [T]int
}

func (h *huff) start() {
	for i := 0; i < NChar; i++ {
		h.freq[i] = 1
		h.son[i] = i + T
		h.prnt[i+T] = i
	}
	i, j := 0, NChar
	for j <= R {
		h.freq[j] = h.freq[i] + h.freq[i+1]
		h.son[j] = i
		h.prnt[i] = j
		h.prnt[i+1] = j
		i += 2
		j++
	}
	h.freq[T] = 0xffff
	h.prnt[R] = 0
}

func (h *huff) reconst() {
	j := 0
	for i := 0; i < T; i++ {
		if h.son[i] >= T {
			h.freq[j] = (h.freq[i] + 1) / 2
			h.son[j] = h.son[i]
			j++
		}
	}
	i := 0
	for j := NChar; j < T; j++ {
		f := h.freq[i] + h.freq[i+1]
		k := j
		for f < h.freq[k-1] {
			k--
		}
		copy(h.freq[k+1:j+1], h.freq[k:j])
		copy(h.son[k+1:j+1], h.son[k:j])
		h.freq[k] = f
		h.son[k] = i
		i += 2
	}
	for i := 0; i < T; i++ {
		k := h.son[i]
		if k >= T {
			h.prnt[k] = i
		} else {
			h.prnt[k] = i
			h.prnt[k+1] = i
		}
	}
}

func (h *huff) update(c int) {
	if h.freq[R] == MaxFreq {
		h.reconst()
	}
	c = h.prnt[c+T]
	for {
		h.freq[c]++
		k := h.freq[c]
		l := c + 1
		if k > h.freq[l] {
			for k > h.freq[l+1] {
				l++
			}
			h.freq[c] = h.freq[l]
			h.freq[l] = k
			i := h.son[c]
			h.prnt[i] = l
			if i < T {
				h.prnt[i+1] = l
			}
			j := h.son[l]
			h.son[l] = i
			h.prnt[j] = c
			if j < T {
				h.prnt[j+1] = c
			}
			h.son[c] = j
			c = l
		}
		c = h.prnt[c]
		if c == 0 {
			break
		}
	}
}

// ---- decoder ---------------------------------------------------------------------------------

type bitIn struct {
	b    []byte
	pos  int // bit position
	over bool
}

func (r *bitIn) bit() int {
	if r.pos >= len(r.b)*8 {
		r.over = true
		return 0
	}
	v := int(r.b[r.pos/8]>>(7-uint(r.pos%8))) & 1
	r.pos++
	return v
}

// Result of decoding a raw LZHUF stream (after the optional CRC field).
type Result struct {
	Size      int32  // declared size
	Data      []byte // decoded bytes (up to Size unless Overrun, then including the excess)
	BitsUsed  int    // bits of the bit stream consumed
	Truncated bool   // ran out of bits before Size bytes
	Overrun   bool   // the last match produced bytes past Size
	Err       error  // nil iff the stream is a canonical encoding prefix-complete to Size
}

// DecodeRaw decodes size + bit stream (no CRC field). It never panics and never loops.
func DecodeRaw(in []byte) Result {
	var res Result
	if len(in) < 4 {
		res.Err = ErrHeader
		return res
	}
	res.Size = int32(binary.LittleEndian.Uint32(in))
	if res.Size < 0 {
		res.Err = ErrNegative
		return res
	}
	if res.Size == 0 {
		return res
	}
	var h huff
	h.start()
	br := &bitIn{b: in[4:]}
	var text [N]byte
	for i := 0; i < N-F; i++ {
		text[i] = ' '
	}
	r := N - F
	size := int(res.Size)
	out := make([]byte, 0, minInt(size, 1<<20))
	for len(out) < size {
		c := h.son[R]
		for c < T {
			c = h.son[c+br.bit()]
		}
		if br.over {
			res.Truncated = true
			res.Err = ErrTruncated
			break
		}
		c -= T
		h.update(c)
		if c < 256 {
			out = append(out, byte(c))
			text[r] = byte(c)
			r = (r + 1) & (N - 1)
			continue
		}
		var b uint
		for k := 0; k < 8; k++ {
			b = b<<1 | uint(br.bit())
		}
		hi := dCode[b]
		n := dLen[b] - 2
		for ; n > 0; n-- {
			b = b<<1 | uint(br.bit())
		}
		if br.over {
			res.Truncated = true
			res.Err = ErrTruncated
			break
		}
		pos := int(hi<<6 | b&0x3f)
		i := (r - pos - 1) & (N - 1)
		j := c - 255 + Threshold
		for k := 0; k < j; k++ {
			ch := text[(i+k)&(N-1)]
			out = append(out, ch)
			text[r] = ch
			r = (r + 1) & (N - 1)
		}
	}
	if len(out) > size {
		res.Overrun = true
		res.Err = ErrOverrun
	}
	res.Data = out
	res.BitsUsed = br.pos
	return res
}

// DecodeB2 decodes crc16 + size + bit stream and verifies the CRC over everything after the CRC field.
func DecodeB2(in []byte) (Result, error) {
	if len(in) < 6 {
		return Result{Err: ErrHeader}, ErrHeader
	}
	res := DecodeRaw(in[2:])
	if res.Err != nil {
		return res, res.Err
	}
	if binary.LittleEndian.Uint16(in) != CRC16(in[2:]) {
		return res, ErrCRC
	}
	return res, nil
}

func minInt(a, b int) int {
	if a < b {
		return a
	}
	return b
}

// CRC16 is CRC-16/XMODEM (poly 0x1021, init 0, no reflection), bit by bit.
func CRC16(p []byte) uint16 {
	var crc uint16
	for _, b := range p {
		crc ^= uint16(b) << 8
		for i := 0; i < 8; i++ {
			if crc&0x8000 != 0 {
				crc = crc<<1 ^ 0x1021
			} else {
				crc <<= 1
			}
		}
	}
	return crc
}

// ---- encoder ---------------------------------------------------------------------------------

type bitOut struct {
	b    []byte
	nbit uint
}

func (w *bitOut) put(v uint, n uint) { // n bits of v, MSB first
	for i := int(n) - 1; i >= 0; i-- {
		if w.nbit%8 == 0 {
			w.b = append(w.b, 0)
		}
		if v>>uint(i)&1 != 0 {
			w.b[len(w.b)-1] |= 0x80 >> (w.nbit % 8)
		}
		w.nbit++
	}
}

type encoder struct {
	h                  huff
	text               [N + F - 1]byte
	lson, dad          [N + 1]int
	rson               [N + 257]int
	matchPos, matchLen int
	out                bitOut
	Matches, Literals  int
}

func (e *encoder) initTree() {
	for i := N + 1; i <= N+256; i++ {
		e.rson[i] = NIL
	}
	for i := 0; i < N; i++ {
		e.dad[i] = NIL
	}
}

func (e *encoder) insertNode(r int) {
	cmp := 1
	key := e.text[r:]
	p := N + 1 + int(key[0])
	e.rson[r], e.lson[r] = NIL, NIL
	e.matchLen = 0
	for {
		if cmp >= 0 {
			if e.rson[p] != NIL {
				p = e.rson[p]
			} else {
				e.rson[p] = r
				e.dad[r] = p
				return
			}
		} else {
			if e.lson[p] != NIL {
				p = e.lson[p]
			} else {
				e.lson[p] = r
				e.dad[r] = p
				return
			}
		}
		i := 1
		for ; i < F; i++ {
			cmp = int(key[i]) - int(e.text[p+i])
			if cmp != 0 {
				break
			}
		}
		if i > Threshold {
			if i > e.matchLen {
				e.matchPos = ((r - p) & (N - 1)) - 1
				e.matchLen = i
				if i >= F {
					break
				}
			}
			if i == e.matchLen {
				if c := ((r - p) & (N - 1)) - 1; c < e.matchPos {
					e.matchPos = c
				}
			}
		}
	}
	e.dad[r] = e.dad[p]
	e.lson[r] = e.lson[p]
	e.rson[r] = e.rson[p]
	e.dad[e.lson[p]] = r
	e.dad[e.rson[p]] = r
	if e.rson[e.dad[p]] == p {
		e.rson[e.dad[p]] = r
	} else {
		e.lson[e.dad[p]] = r
	}
	e.dad[p] = NIL
}

func (e *encoder) deleteNode(p int) {
	if e.dad[p] == NIL {
		return
	}
	var q int
	if e.rson[p] == NIL {
		q = e.lson[p]
	} else if e.lson[p] == NIL {
		q = e.rson[p]
	} else {
		q = e.lson[p]
		if e.rson[q] != NIL {
			for e.rson[q] != NIL {
				q = e.rson[q]
			}
			e.rson[e.dad[q]] = e.lson[q]
			e.dad[e.lson[q]] = e.dad[q]
			e.lson[q] = e.lson[p]
			e.dad[e.lson[p]] = q
		}
		e.rson[q] = e.rson[p]
		e.dad[e.rson[p]] = q
	}
	e.dad[q] = e.dad[p]
	if e.rson[e.dad[p]] == p {
		e.rson[e.dad[p]] = q
	} else {
		e.lson[e.dad[p]] = q
	}
	e.dad[p] = NIL
}

func (e *encoder) encodeChar(c int) {
	var bits [64]uint
	n := 0
	k := e.h.prnt[c+T]
	for {
		bits[n] = uint(k & 1)
		n++
		k = e.h.prnt[k]
		if k == R {
			break
		}
	}
	for i := n - 1; i >= 0; i-- {
		e.out.put(bits[i], 1)
	}
	e.h.update(c)
}

func (e *encoder) encodePos(p int) {
	u := p >> 6
	e.out.put(pCode[u]>>(8-pLen[u]), pLen[u])
	e.out.put(uint(p&0x3f), 6)
}

// Stats about the last Encode call of interest to evidence (non-triviality).
type Stats struct{ Matches, Literals int }

// EncodeRaw returns size + bit stream for in (no CRC field).
func EncodeRaw(in []byte) ([]byte, Stats) {
	hdr := make([]byte, 4)
	binary.LittleEndian.PutUint32(hdr, uint32(len(in)))
	if len(in) == 0 {
		return hdr, Stats{}
	}
	e := &encoder{}
	e.h.start()
	e.initTree()
	s, r := 0, N-F
	for i := s; i < r; i++ {
		e.text[i] = ' '
	}
	ip := 0
	length := 0
	for ; length < F && ip < len(in); length++ {
		e.text[r+length] = in[ip]
		ip++
	}
	for i := 1; i <= F; i++ {
		e.insertNode(r - i)
	}
	e.insertNode(r)
	for length > 0 {
		if e.matchLen > length {
			e.matchLen = length
		}
		if e.matchLen <= Threshold {
			e.matchLen = 1
			e.encodeChar(int(e.text[r]))
			e.Literals++
		} else {
			e.encodeChar(255 - Threshold + e.matchLen)
			e.encodePos(e.matchPos)
			e.Matches++
		}
		last := e.matchLen
		i := 0
		for ; i < last && ip < len(in); i++ {
			c := in[ip]
			ip++
			e.deleteNode(s)
			e.text[s] = c
			if s < F-1 {
				e.text[s+N] = c
			}
			s = (s + 1) & (N - 1)
			r = (r + 1) & (N - 1)
			e.insertNode(r)
		}
		for ; i < last; i++ {
			e.deleteNode(s)
			s = (s + 1) & (N - 1)
			r = (r + 1) & (N - 1)
			length--
			if length > 0 {
				e.insertNode(r)
			}
		}
	}
	return append(hdr, e.out.b...), Stats{e.Matches, e.Literals}
}

// EncodeB2 returns crc16 + size + bit stream.
func EncodeB2(in []byte) []byte {
	raw, _ := EncodeRaw(in)
	out := make([]byte, 2, 2+len(raw))
	binary.LittleEndian.PutUint16(out, CRC16(raw))
	return append(out, raw...)
}
