// Package secure is an independent implementation of the Winlink secure-login response as stated
// in property C16: MD5 over challenge, password and the fixed salt; first four digest bytes as a
// little-endian integer masked to 30 bits; last eight decimal digits, zero padded.
package secure

import (
	"crypto/md5"
	"encoding/binary"
	"strconv"
)

// Salt is the fixed Winlink salt (published in paclink-unix; copied once, frozen here).
var Salt = []byte{77, 197, 101, 206, 190, 249, 93, 200, 51, 243, 93, 237, 71, 94, 239, 138, 68, 108, 70, 185, 225, 137, 217, 16, 51, 122, 193, 48, 194, 195, 198, 175, 172, 169, 70, 84, 61, 62, 104, 186, 114, 52, 61, 168, 66, 129, 192, 208, 187, 249, 232, 193, 41, 113, 41, 45, 240, 16, 29, 228, 208, 228, 61, 20}

// Response returns the 8-digit answer and the digest (for evidence classes).
func Response(challenge, password string) (string, [16]byte) {
	h := md5.New()
	h.Write([]byte(challenge))
	h.Write([]byte(password))
	h.Write(Salt)
	var sum [16]byte
	copy(sum[:], h.Sum(nil))
	v := binary.LittleEndian.Uint32(sum[:4]) & 0x3fffffff
	s := strconv.FormatUint(uint64(v), 10)
	for len(s) < 8 {
		s = "0" + s
	}
	return s[len(s)-8:], sum
}
