// Package sandbox builds the directory tree with decoys around a mailbox and snapshots everything
// outside the mailbox (ground truth for the confinement property C12).
package sandbox

import (
	"crypto/sha256"
	"os"
	"path/filepath"
	"sort"
	"strings"
	"syscall"
	"time"
)

type Entry struct {
	size  int64
	mtime time.Time
	ino   uint64
	hash  [32]byte
	mode  os.FileMode
}

func Snapshot(root, exclude string) map[string]Entry {
	m := map[string]Entry{}
	filepath.Walk(root, func(p string, info os.FileInfo, err error) error {
		if err != nil {
			return nil
		}
		if p == exclude {
			return filepath.SkipDir
		}
		e := Entry{size: info.Size(), mtime: info.ModTime(), mode: info.Mode(), ino: inodeOf(info)}
		if !info.IsDir() {
			b, _ := os.ReadFile(p)
			e.hash = sha256.Sum256(b)
		} else {
			e.size = 0
			e.mtime = time.Time{} // directory mtimes are compared through their entries
		}
		m[p] = e
		return nil
	})
	return m
}

func Diff(a, b map[string]Entry) string {
	var d []string
	for p, x := range a {
		y, ok := b[p]
		if !ok {
			d = append(d, "deleted "+p)
		} else if x != y {
			d = append(d, "modified "+p)
		}
	}
	for p := range b {
		if _, ok := a[p]; !ok {
			d = append(d, "created "+p)
		}
	}
	sort.Strings(d)
	return strings.Join(d, "; ")
}

func inodeOf(info os.FileInfo) uint64 {
	if st, ok := info.Sys().(*syscall.Stat_t); ok {
		return st.Ino
	}
	return 0
}

// WellFormed is a complete Winlink message (decoy files come both as garbage and as well-formed
// messages: code that treats the two differently must leave both alone).
const WellFormed = "Mid: DECOYMSG0001\r\nBody: 6\r\nContent-Transfer-Encoding: 8bit\r\nContent-Type: text/plain; charset=ISO-8859-1\r\nDate: 2020/01/01 00:00\r\nFrom: N0DECOY\r\nMbo: N0DECOY\r\nSubject: decoy\r\nTo: N0NONE\r\nType: Private\r\n\r\ndecoy\n\r\n"

// Sandbox is <root>/1/2/3/4/5/6/mbox with decoy files and directories at every level.
type Sandbox struct{ Root, MBox string }

func New(base string) (*Sandbox, error) {
	root, err := os.MkdirTemp(base, "c12")
	if err != nil {
		return nil, err
	}
	p := root
	for _, d := range []string{"1", "2", "3", "4", "5", "6"} {
		os.WriteFile(filepath.Join(p, "decoy.txt"), []byte("decoy at "+d), 0o644)
		os.WriteFile(filepath.Join(p, "a.b2f"), []byte("decoy message file"), 0o644)
		os.WriteFile(filepath.Join(p, "aa.b2f"), []byte(WellFormed), 0o644)
		os.MkdirAll(filepath.Join(p, "outside"), 0o755)
		os.WriteFile(filepath.Join(p, "outside", "target.b2f"), []byte("target"), 0o644)
		os.MkdirAll(filepath.Join(p, "a"), 0o755)
		p = filepath.Join(p, d)
		os.MkdirAll(p, 0o755)
	}
	os.WriteFile(filepath.Join(p, "decoy.txt"), []byte("sibling decoy"), 0o644)
	os.WriteFile(filepath.Join(p, "a.b2f"), []byte("decoy message file"), 0o644)
	os.WriteFile(filepath.Join(p, "aa.b2f"), []byte(WellFormed), 0o644)
	os.MkdirAll(filepath.Join(p, "outside"), 0o755)
	os.WriteFile(filepath.Join(p, "outside", "target.b2f"), []byte("target"), 0o644)
	os.MkdirAll(filepath.Join(p, "mboxbackup"), 0o755)
	return &Sandbox{root, filepath.Join(p, "mbox")}, nil
}

func (s *Sandbox) Close() { os.RemoveAll(s.Root) }

func TmpBase() string {
	if st, err := os.Stat("/dev/shm"); err == nil && st.IsDir() {
		return "/dev/shm"
	}
	return ""
}
