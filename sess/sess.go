// Package sess holds what every fbb.Session based check shares: deterministic message builders, the
// in-memory reference mailbox handler (implemented the way the fbb.MBoxHandler doc comments
// require), and the two-station runner on top of verif/link.
package sess

import (
	"bytes"
	"fmt"
	"io"
	"log"
	"net"
	"os"
	"runtime/debug"
	"sort"
	"strings"
	"sync/atomic"
	"time"

	"github.com/la5nta/wl2k-go/fbb"

	"verif/link"
)

var Discard = log.New(io.Discard, "", 0)

// MsgSpec describes one message to queue.
type MsgSpec struct {
	MID     string
	Subject string
	Body    string
	Files   []FileSpec
	To      string // default N0DST
}

type FileSpec struct {
	Name string
	Data []byte
}

var fixedDate = time.Date(2020, 1, 2, 3, 4, 0, 0, time.UTC)

// Build constructs the fbb.Message for a spec (deterministic: fixed date, given MID).
func (s MsgSpec) Build(from string) *fbb.Message {
	m := fbb.NewMessage(fbb.Private, from)
	m.Header.Set("Mid", s.MID)
	m.SetDate(fixedDate)
	to := s.To
	if to == "" {
		to = "N0DST"
	}
	m.AddTo(to)
	subj := s.Subject
	if subj == "" {
		subj = "subject " + s.MID
	}
	m.SetSubject(subj)
	body := s.Body
	if body == "" {
		body = "body of " + s.MID + "\r\n"
	}
	if err := m.SetBody(body); err != nil {
		panic(err)
	}
	for _, f := range s.Files {
		m.AddFile(fbb.NewFile(f.Name, append([]byte{}, f.Data...)))
	}
	return m
}

// Call is one recorded handler callback.
type Call struct {
	Op    string // Prepare GetOutbound SetSent SetDeferred ProcessInbound GetInboundAnswer(s)
	MID   string
	Flag  bool   // SetSent: rejected
	Bytes []byte // ProcessInbound: message bytes
	Ans   byte
	FW    string
	Err   string
}

// Box is the in-memory reference mailbox handler.
type Box struct {
	Name     string
	Out      map[string]*fbb.Message // pending outbound
	OutOrder []string
	Sent     map[string]bool // mid -> rejected?
	In       map[string][]byte
	deferred map[string]bool
	// Policy: answer per MID ('+', '-', '='); default: reject iff already in In, else accept.
	Policy map[string]byte
	// FailInboundAt >= 1: the n-th ProcessInbound call (counted over the Box's life) fails.
	FailInboundAt int
	inboundCalls  int
	PrepareErr    error
	Calls         []Call
	Batched       bool
	OnCall        func(c Call) // optional observer (e.g. to interleave with link events)
}

func NewBox(name string) *Box {
	return &Box{Name: name, Out: map[string]*fbb.Message{}, Sent: map[string]bool{}, In: map[string][]byte{}, deferred: map[string]bool{}, Policy: map[string]byte{}}
}

func (b *Box) AddOut(m *fbb.Message) {
	b.Out[m.MID()] = m
	b.OutOrder = append(b.OutOrder, m.MID())
}

func (b *Box) rec(c Call) {
	b.Calls = append(b.Calls, c)
	if b.OnCall != nil {
		b.OnCall(c)
	}
}

func (b *Box) Prepare() error {
	b.deferred = map[string]bool{}
	c := Call{Op: "Prepare"}
	if b.PrepareErr != nil {
		c.Err = b.PrepareErr.Error()
	}
	b.rec(c)
	return b.PrepareErr
}

func (b *Box) GetOutbound(fw ...fbb.Address) []*fbb.Message {
	var fws []string
	for _, a := range fw {
		fws = append(fws, a.String())
	}
	b.rec(Call{Op: "GetOutbound", FW: strings.Join(fws, " ")})
	var out []*fbb.Message
	for _, mid := range b.OutOrder {
		if m, ok := b.Out[mid]; ok && !b.deferred[mid] {
			out = append(out, m)
		}
	}
	return out
}

func (b *Box) SetSent(mid string, rejected bool) {
	b.rec(Call{Op: "SetSent", MID: mid, Flag: rejected})
	delete(b.Out, mid)
	b.Sent[mid] = rejected
}

func (b *Box) SetDeferred(mid string) {
	b.rec(Call{Op: "SetDeferred", MID: mid})
	b.deferred[mid] = true
}

func (b *Box) ProcessInbound(msgs ...*fbb.Message) error {
	for _, m := range msgs {
		b.inboundCalls++
		data, _ := m.Bytes()
		c := Call{Op: "ProcessInbound", MID: m.MID(), Bytes: data}
		if b.FailInboundAt > 0 && b.inboundCalls == b.FailInboundAt {
			c.Err = "storage error (injected)"
			b.rec(c)
			return fmt.Errorf("storage error (injected)")
		}
		b.rec(c)
		b.In[m.MID()] = data
	}
	return nil
}

func (b *Box) answer(p fbb.Proposal) fbb.ProposalAnswer {
	if a, ok := b.Policy[p.MID()]; ok {
		return fbb.ProposalAnswer(a)
	}
	if _, have := b.In[p.MID()]; have {
		return fbb.Reject
	}
	return fbb.Accept
}

func (b *Box) GetInboundAnswer(p fbb.Proposal) fbb.ProposalAnswer {
	a := b.answer(p)
	b.rec(Call{Op: "GetInboundAnswer", MID: p.MID(), Ans: byte(a)})
	return a
}

// BatchedBox additionally implements fbb.BatchedInboundHandler.
type BatchedBox struct{ *Box }

func (b BatchedBox) GetInboundAnswers(ps []fbb.Proposal) []fbb.ProposalAnswer {
	out := make([]fbb.ProposalAnswer, len(ps))
	for i, p := range ps {
		out[i] = b.answer(p)
		b.rec(Call{Op: "GetInboundAnswers", MID: p.MID(), Ans: byte(out[i])})
	}
	return out
}

func (b *Box) Handler() fbb.MBoxHandler {
	if b.Batched {
		return BatchedBox{b}
	}
	return b
}

// CallsOf returns the recorded calls with the given op.
func (b *Box) CallsOf(op string) []Call {
	var out []Call
	for _, c := range b.Calls {
		if c.Op == op {
			out = append(out, c)
		}
	}
	return out
}

// Station is one side of an exchange.
type Station struct {
	Call, Locator string
	Master        bool
	MOTD          []string
	Gzip          bool
	Handler       fbb.MBoxHandler
	Configure     func(s *fbb.Session)
}

// Result of one side's Exchange.
type Result struct {
	Stats    fbb.TrafficStats
	Err      error
	Panic    string
	Stack    string
	Returned bool
}

var gzipNow atomic.Bool

// setGzip switches GZIP_EXPERIMENT only when the value changes, so that runs which never enable
// it perform no environment writes at all (and may run concurrently in one process).
func setGzip(on bool) {
	if gzipNow.Load() == on {
		return
	}
	gzipNow.Store(on)
	if on {
		os.Setenv("GZIP_EXPERIMENT", "1")
	} else {
		os.Unsetenv("GZIP_EXPERIMENT")
	}
}

// RunPair runs two real Sessions against each other over a deterministic link.
// Not safe for concurrent use within one process when Gzip differs (environment variable).
func RunPair(a, b Station, plan link.Plan) (*link.Link, [2]Result) {
	l := link.New(plan)
	st := [2]Station{a, b}
	var res [2]Result
	l.OnSwitch = func(to int) { setGzip(st[to].Gzip) }
	setGzip(st[0].Gzip)
	party := func(i int) func(c *link.Conn) {
		return func(c *link.Conn) {
			defer func() {
				if e := recover(); e != nil {
					if _, ok := e.(link.HorizonAbort); ok { // not a panic of the library: the link stopped a spin
						res[i].Err = fmt.Errorf("%v", e)
						return
					}
					res[i].Panic = fmt.Sprint(e)
					res[i].Stack = string(debug.Stack())
				}
			}()
			s := fbb.NewSession(st[i].Call, st[1-i].Call, st[i].Locator, st[i].Handler)
			s.SetLogger(Discard)
			s.IsMaster(st[i].Master)
			if len(st[i].MOTD) > 0 {
				s.SetMOTD(st[i].MOTD...)
			}
			if st[i].Configure != nil {
				st[i].Configure(s)
			}
			res[i].Stats, res[i].Err = s.Exchange(c)
			res[i].Returned = true
		}
	}
	l.Run(party(0), party(1))
	setGzip(false)
	return l, res
}

// RunScript runs one real Session against a pre-loaded remote transcript.
func RunScript(st Station, target string, sc *link.Script) (res Result) {
	setGzip(st.Gzip)
	defer setGzip(false)
	defer func() {
		if e := recover(); e != nil {
			res.Panic = fmt.Sprint(e)
			res.Stack = string(debug.Stack())
		}
	}()
	s := fbb.NewSession(st.Call, target, st.Locator, st.Handler)
	s.SetLogger(Discard)
	s.IsMaster(st.Master)
	if len(st.MOTD) > 0 {
		s.SetMOTD(st.MOTD...)
	}
	if st.Configure != nil {
		st.Configure(s)
	}
	res.Stats, res.Err = s.Exchange(sc)
	res.Returned = true
	return
}

// PanicSiteOf extracts the innermost wl2k-go function from a recorded stack (line independent).
func PanicSiteOf(stack string) string {
	lines := strings.Split(stack, "\n")
	seenPanic := false
	for _, ln := range lines {
		if strings.HasPrefix(ln, "panic(") {
			seenPanic = true
			continue
		}
		if !seenPanic {
			continue
		}
		if i := strings.Index(ln, "la5nta/wl2k-go/"); i >= 0 && !strings.HasPrefix(ln, "\t") {
			fn := ln[i+len("la5nta/wl2k-go/"):]
			if j := strings.LastIndex(fn, "("); j > 0 {
				fn = fn[:j]
			}
			return fn
		}
	}
	return "?"
}

// SortedKeys is a small helper for deterministic iteration.
func SortedKeys[V any](m map[string]V) []string {
	ks := make([]string, 0, len(m))
	for k := range m {
		ks = append(ks, k)
	}
	sort.Strings(ks)
	return ks
}

// MsgBytes serialises a message (panics on error: specs are valid by construction).
func MsgBytes(m *fbb.Message) []byte {
	b, err := m.Bytes()
	if err != nil {
		panic(err)
	}
	return b
}

// Equal reports byte equality.
func Equal(a, b []byte) bool { return bytes.Equal(a, b) }

// RunScriptConn runs one real Session on an arbitrary conn (e.g. one end of a link whose other
// end is the reference peer).
func RunScriptConn(st Station, target string, c net.Conn) (res Result) {
	defer func() {
		if e := recover(); e != nil {
			if _, ok := e.(link.HorizonAbort); ok {
				res.Err = fmt.Errorf("%v", e)
				c.Close()
				return
			}
			res.Panic = fmt.Sprint(e)
			res.Stack = string(debug.Stack())
			c.Close()
		}
	}()
	s := fbb.NewSession(st.Call, target, st.Locator, st.Handler)
	s.SetLogger(Discard)
	s.IsMaster(st.Master)
	if len(st.MOTD) > 0 {
		s.SetMOTD(st.MOTD...)
	}
	if st.Configure != nil {
		st.Configure(s)
	}
	res.Stats, res.Err = s.Exchange(c)
	res.Returned = true
	return
}
