#!/bin/sh
# Builds the framework offline from files on disk.
ROOT=$(cd "$(dirname "$0")" && pwd) || exit 2
export VERIF_ROOT="$ROOT"
cd "$ROOT" || exit 2
export GOFLAGS=-mod=mod GOPROXY=off
mkdir -p bin evidence
go build -o bin/vcheck ./cmd/vcheck || exit 2
go build -o bin/vrewrite ./cmd/vrewrite || exit 2
bin/vcheck selftest || exit 2
bin/vcheck buildgovs || exit 2
bin/vcheck shimtest || exit 2
# warm the build cache for the free-running race-detector pass of C17 (skipped there if unavailable)
go test -race -count=1 -vet=off -run '^$' ./racecheck/ >/dev/null 2>&1 || echo "note: the race detector cannot be built here; C17 skips its free-running pass"
echo setup ok
