#!/bin/sh
# Builds the framework offline from files on disk.
ROOT=$(cd "$(dirname "$0")" && pwd) || exit 2
export VERIF_ROOT="$ROOT"
cd "$ROOT" || exit 2
export GOFLAGS=-mod=mod GOPROXY=off
mkdir -p bin evidence
go build -o bin/vcheck ./cmd/vcheck || exit 2
go build -o bin/vrewrite ./cmd/vrewrite || exit 2
bin/vcheck selftest || exit 2
bin/vcheck buildgovs || exit 2
bin/vcheck shimtest || exit 2
echo setup ok
