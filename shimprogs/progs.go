// Package shimprogs holds the shim-conformance micro-programs (DESIGN.md Appendix G): plain Go using
// channels, select, go, sync, time and context. The same source runs (a) on the real Go runtime,
// free-running, many times, and (b) rewritten by cmd/vrewrite under the controlled scheduler,
// exhaustively. Requirement: every outcome seen on the real runtime is among the outcomes explored
// under the scheduler, with equality for the deterministic programs.
package shimprogs

import (
	"context"
	"fmt"
	"sort"
	"strings"
	"sync"
	"sync/atomic"
	"time"
)

type Prog struct {
	Name string
	Det  bool // exactly one outcome is possible
	F    func() string
}

// Timing reports whether the program's real-runtime outcome depends on wall-clock gaps (those are
// run one at a time on the real runtime, with wide gaps, so that machine load cannot reorder them).
func (p Prog) Timing() bool {
	for _, n := range []string{"after order", "timer stop", "ticker drops", "sleep orders", "context timeout", "work wins"} {
		if strings.HasPrefix(p.Name, n) {
			return true
		}
	}
	return false
}

func catch(f func()) (msg string) {
	defer func() {
		if e := recover(); e != nil {
			msg = fmt.Sprint(e)
		}
	}()
	f()
	return "no panic"
}

var Programs = []Prog{
	{"unbuffered ping-pong", true, func() string {
		a, b := make(chan int), make(chan int)
		go func() {
			for i := 0; i < 3; i++ {
				v := <-a
				b <- v + 1
			}
		}()
		s := ""
		for i := 0; i < 3; i++ {
			a <- i * 10
			s += fmt.Sprint(<-b, ",")
		}
		return s
	}},
	{"buffered FIFO cap 3", true, func() string {
		c := make(chan int, 3)
		c <- 1
		c <- 2
		c <- 3
		return fmt.Sprint(len(c), cap(c), <-c, <-c, <-c, len(c))
	}},
	{"closed non-empty buffer then zero,false", true, func() string {
		c := make(chan string, 2)
		c <- "x"
		close(c)
		v1, ok1 := <-c
		v2, ok2 := <-c
		return fmt.Sprint(v1, ok1, v2, ok2)
	}},
	{"send on closed panics", true, func() string {
		c := make(chan int, 1)
		close(c)
		return catch(func() { c <- 1 })
	}},
	{"close of closed panics", true, func() string {
		c := make(chan int)
		close(c)
		return catch(func() { close(c) })
	}},
	{"close of nil panics", true, func() string {
		var c chan int
		return catch(func() { close(c) })
	}},
	{"nil channel in select is never chosen", true, func() string {
		var n chan int
		c := make(chan int, 1)
		c <- 7
		select {
		case v := <-n:
			return fmt.Sprint("nil ", v)
		case v := <-c:
			return fmt.Sprint("c ", v)
		}
	}},
	{"range until close", true, func() string {
		c := make(chan int)
		go func() {
			for i := 0; i < 4; i++ {
				c <- i
			}
			close(c)
		}()
		s := 0
		for v := range c {
			s = s*10 + v
		}
		return fmt.Sprint(s)
	}},
	{"two senders one receiver", false, func() string {
		c := make(chan int)
		go func() { c <- 1 }()
		go func() { c <- 2 }()
		return fmt.Sprint(<-c, <-c)
	}},
	{"two receivers one sender", false, func() string {
		c := make(chan int)
		r := make(chan string, 2)
		go func() { r <- fmt.Sprint("A", <-c) }()
		go func() { r <- fmt.Sprint("B", <-c) }()
		c <- 1
		c <- 2
		x := []string{<-r, <-r}
		sort.Strings(x)
		return strings.Join(x, " ")
	}},
	{"close wakes all blocked receivers", true, func() string {
		c := make(chan int)
		var wg sync.WaitGroup
		var n int32
		for i := 0; i < 3; i++ {
			wg.Add(1)
			go func() {
				defer wg.Done()
				if _, ok := <-c; !ok {
					atomic.AddInt32(&n, 1)
				}
			}()
		}
		close(c)
		wg.Wait()
		return fmt.Sprint(atomic.LoadInt32(&n))
	}},
	{"sender blocked on full buffer keeps order", true, func() string {
		c := make(chan int, 1)
		done := make(chan bool)
		go func() {
			c <- 1
			c <- 2
			c <- 3
			done <- true
		}()
		s := fmt.Sprint(<-c, <-c, <-c)
		<-done
		return s
	}},
	{"select default iff nothing ready", true, func() string {
		c := make(chan int, 1)
		s := ""
		select {
		case v := <-c:
			s += fmt.Sprint("got", v)
		default:
			s += "default"
		}
		c <- 5
		select {
		case v := <-c:
			s += fmt.Sprint(" got", v)
		default:
			s += " default"
		}
		return s
	}},
	{"select with two ready cases", false, func() string {
		a, b := make(chan int, 1), make(chan int, 1)
		a <- 1
		b <- 2
		select {
		case v := <-a:
			return fmt.Sprint("a", v)
		case v := <-b:
			return fmt.Sprint("b", v)
		}
	}},
	{"send and receive cases in one select", false, func() string {
		in, out := make(chan int, 1), make(chan int, 1)
		in <- 9
		select {
		case v := <-in:
			return fmt.Sprint("recv", v)
		case out <- 4:
			return fmt.Sprint("sent", <-out)
		}
	}},
	{"select-to-select rendezvous", true, func() string {
		c := make(chan int)
		r := make(chan string)
		go func() {
			select {
			case c <- 42:
				r <- "sent"
			}
		}()
		var v int
		select {
		case v = <-c:
		}
		return fmt.Sprint(v, <-r)
	}},
	{"channel and value expressions evaluated once in source order", true, func() string {
		log := ""
		mk := func(name string, c chan int) chan int { log += name; return c }
		val := func(name string, v int) int { log += name; return v }
		a, b := make(chan int, 1), make(chan int, 1)
		a <- 1
		select {
		case <-mk("A", a):
		case mk("B", b) <- val("v", 2):
		}
		return log
	}},
	{"select in a loop with break continue and labelled break", true, func() string {
		c := make(chan int, 5)
		for i := 1; i <= 5; i++ {
			c <- i
		}
		close(c)
		s := ""
	L:
		for {
			select {
			case v, ok := <-c:
				if !ok {
					break L
				}
				if v == 2 {
					continue
				}
				if v == 4 {
					break
				}
				s += fmt.Sprint(v)
			}
		}
		return s
	}},
	{"select whose cases all return", true, func() string {
		c := make(chan int, 1)
		c <- 3
		f := func() int {
			select {
			case v := <-c:
				return v
			}
		}
		return fmt.Sprint(f())
	}},
	{"go f(x) sees the value at the go statement", true, func() string {
		r := make(chan int)
		x := 1
		f := func(v int) { r <- v }
		go f(x)
		x = 2
		return fmt.Sprint(<-r, x)
	}},
	{"mutex mutual exclusion", true, func() string {
		var mu sync.Mutex
		n := 0
		var wg sync.WaitGroup
		for i := 0; i < 3; i++ {
			wg.Add(1)
			go func() {
				defer wg.Done()
				for k := 0; k < 4; k++ {
					mu.Lock()
					n++
					mu.Unlock()
				}
			}()
		}
		wg.Wait()
		return fmt.Sprint(n)
	}},
	{"once runs once and the second caller waits", true, func() string {
		var once sync.Once
		n := 0
		var wg sync.WaitGroup
		for i := 0; i < 3; i++ {
			wg.Add(1)
			go func() {
				defer wg.Done()
				once.Do(func() { n++ })
				if n != 1 {
					n = 100
				}
			}()
		}
		wg.Wait()
		return fmt.Sprint(n)
	}},
	{"atomic add from three goroutines", true, func() string {
		var n int64
		var wg sync.WaitGroup
		for i := 0; i < 3; i++ {
			wg.Add(1)
			go func() { defer wg.Done(); atomic.AddInt64(&n, 5) }()
		}
		wg.Wait()
		return fmt.Sprint(atomic.LoadInt64(&n))
	}},
	{"after order for different durations", true, func() string {
		a, b := time.After(400*time.Millisecond), time.After(5*time.Millisecond)
		s := ""
		for i := 0; i < 2; i++ {
			select {
			case <-a:
				s += "a"
			case <-b:
				s += "b"
			}
		}
		return s
	}},
	{"timer stop prevents firing, reset re-arms", true, func() string {
		t := time.NewTimer(20 * time.Millisecond)
		stopped := t.Stop()
		t.Reset(10 * time.Millisecond)
		<-t.C
		return fmt.Sprint(stopped)
	}},
	{"ticker drops ticks for a slow reader", false, // deterministic only if goroutines are never delayed for longer than the timer gaps
		func() string {
			t := time.NewTicker(10 * time.Millisecond)
			time.Sleep(55 * time.Millisecond)
			n := 0
			for {
				select {
				case <-t.C:
					n++
					continue
				default:
				}
				break
			}
			t.Stop()
			return fmt.Sprint(n)
		}},
	{"sleep orders goroutines", false, // deterministic only if goroutines are never delayed for longer than the timer gaps
		func() string {
			r := make(chan string, 2)
			go func() { time.Sleep(400 * time.Millisecond); r <- "slow" }()
			go func() { time.Sleep(5 * time.Millisecond); r <- "fast" }()
			return <-r + <-r
		}},
	{"context timeout fires Done with DeadlineExceeded", true, func() string {
		ctx, cancel := context.WithTimeout(context.Background(), 15*time.Millisecond)
		defer cancel()
		<-ctx.Done()
		return fmt.Sprint(ctx.Err() == context.DeadlineExceeded)
	}},
	{"parent cancellation propagates and cancel is idempotent", true, func() string {
		p, cancelP := context.WithCancel(context.Background())
		c, cancelC := context.WithTimeout(p, time.Hour)
		defer cancelC()
		cancelP()
		cancelP()
		<-c.Done()
		return fmt.Sprint(c.Err() == context.Canceled, p.Err() == context.Canceled)
	}},
	{"work wins against a far timer", false, // deterministic only if goroutines are never delayed for longer than the timer gaps
		func() string {
			w := make(chan int, 1)
			go func() { w <- 1 }()
			select {
			case <-w:
				return "work"
			case <-time.After(2 * time.Second):
				return "timeout"
			}
		}},
	{"non-blocking enqueue into a one-slot queue may drop", false, func() string {
		q := make(chan int, 1)
		done := make(chan int)
		go func() {
			s := 0
			for v := range q {
				s += v
			}
			done <- s
		}()
		sent := 0
		for i := 1; i <= 3; i++ {
			select {
			case q <- i:
				sent++
			default:
			}
		}
		close(q)
		<-done
		return fmt.Sprint(sent >= 1)
	}},
	{"waitgroup and rwmutex", true, func() string {
		var mu sync.RWMutex
		m := map[int]int{}
		var wg sync.WaitGroup
		for i := 0; i < 3; i++ {
			wg.Add(1)
			go func(i int) {
				defer wg.Done()
				mu.Lock()
				m[i] = i * i
				mu.Unlock()
				mu.RLock()
				_ = m[i]
				mu.RUnlock()
			}(i)
		}
		wg.Wait()
		return fmt.Sprint(len(m), m[2])
	}},
}
