package shimprogs

import (
	"sync"
	"sync/atomic"
)

// RaceProg is a micro-program for the race oracle: Racy programs must be reported (on the named
// location) in at least one explored schedule, clean ones in none. They exercise what the rewriter
// instruments: package-level variables, locals captured by go-closures and struct fields behind
// pointers, and the places where a hoisted access record could lie (assignment after a
// synchronising right-hand side, guarded dereference, element-wise ownership, sibling fields).
type RaceProg struct {
	Name string
	Racy string // location expected in the report ("" = no race may be reported)
	F    func()
}

type box struct {
	x     int
	y     int
	m     map[string]int
	arr   []int
	n     int32
	inner struct{ a, b int }
	next  *box
	mu    sync.Mutex
}

func recvInt(c chan int) int { return <-c }

func (b *box) bump() { b.x++ }

// the same accesses through a parameter (a path that is not rooted at a captured variable)
func setX(b *box, v int)           { b.x = v }
func setNextY(b *box, v int)       { b.next.y = v }
func setM(b *box, k string, v int) { b.m[k] = v }
func setInnerA(b *box, v int)      { b.inner.a = v }
func setInnerB(b *box, v int)      { b.inner.b = v }
func setElem(b *box, i, v int)     { b.arr[i] = v }
func recvIntoX(b *box, c chan int) { b.x = <-c }
func spinOnX(b *box) {
	for i := 0; b.x == 0 && i < 2; i++ {
	}
}
func guarded(b *box) bool { return b != nil && b.next != nil && b.next.x > 0 }

var RacePrograms = []RaceProg{
	{"field written by two goroutines", ".x", func() {
		b := &box{}
		done := make(chan bool)
		go func() { b.x = 1; done <- true }()
		b.x = 2
		<-done
	}},
	{"field written in a method by two goroutines", ".x", func() {
		b := &box{}
		done := make(chan bool)
		go func() { b.bump(); done <- true }()
		b.bump()
		<-done
	}},
	{"field under a mutex", "", func() {
		b := &box{}
		done := make(chan bool)
		go func() { b.mu.Lock(); b.x = 1; b.mu.Unlock(); done <- true }()
		b.mu.Lock()
		b.x = 2
		b.mu.Unlock()
		<-done
	}},
	{"assignment of a received value is ordered after the receive", "", func() {
		b := &box{}
		c := make(chan int)
		go func() { b.x = 1; c <- 5 }()
		b.x = <-c
	}},
	{"assignment of a call result that synchronises", "", func() {
		b := &box{}
		c := make(chan int)
		go func() { b.x = 1; c <- 5 }()
		b.x = recvInt(c)
	}},
	{"assignment after the receive is still a race if the sender writes afterwards", ".x", func() {
		b := &box{}
		c := make(chan int)
		done := make(chan bool)
		go func() { c <- 5; b.x = 1; done <- true }()
		b.x = <-c
		<-done
	}},
	{"guarded dereference of a nil pointer", "", func() {
		var b *box
		if b != nil && b.x > 0 {
			panic("unreachable")
		}
		for b != nil && b.y > 0 {
		}
	}},
	{"right operand of && is not an access when the left is false", "", func() {
		b := &box{}
		ready := int32(0)
		done := make(chan bool)
		go func() { b.x = 1; atomic.StoreInt32(&ready, 1); done <- true }()
		if atomic.LoadInt32(&ready) == 1 && b.x == 1 {
			b.y = 1
		}
		<-done
	}},
	{"different elements of one slice", "", func() {
		b := &box{arr: make([]int, 2)}
		done := make(chan bool)
		go func() { b.arr[0] = 1; done <- true }()
		b.arr[1] = 2
		<-done
	}},
	{"one map written by two goroutines", ".m", func() {
		b := &box{m: map[string]int{}}
		done := make(chan bool)
		go func() { b.m["a"] = 1; done <- true }()
		b.m["b"] = 2
		<-done
	}},
	{"atomic field", "", func() {
		b := &box{}
		done := make(chan bool)
		go func() { atomic.AddInt32(&b.n, 1); done <- true }()
		atomic.AddInt32(&b.n, 1)
		<-done
		if atomic.LoadInt32(&b.n) != 2 {
			panic("lost update")
		}
	}},
	{"sibling fields of a struct-valued field", "", func() {
		b := &box{}
		done := make(chan bool)
		go func() { b.inner.a = 1; done <- true }()
		b.inner.b = 2
		<-done
	}},
	{"object handed over through a channel", "", func() {
		c := make(chan *box)
		go func() { p := &box{}; p.x = 1; c <- p }()
		q := <-c
		q.x++
	}},
	{"write before Done, read after Wait", "", func() {
		b := &box{}
		var wg sync.WaitGroup
		wg.Add(1)
		go func() { b.x = 1; wg.Done() }()
		wg.Wait()
		if b.x != 1 {
			panic("not visible")
		}
	}},
	{"read in a loop condition against an unsynchronised write", ".x", func() {
		b := &box{}
		done := make(chan bool)
		go func() { b.x = 1; done <- true }()
		for i := 0; b.x == 0 && i < 2; i++ {
		}
		<-done
	}},
	{"pointer chain: field of the next object", ".y", func() {
		b := &box{next: &box{}}
		done := make(chan bool)
		go func() { b.next.y = 1; done <- true }()
		b.next.y = 2
		<-done
	}},
	{"rate limiter field shared by the reporters of consecutive items", ".x", func() {
		// item N's final report is delivered asynchronously and overlaps item N+1's reporter
		b := &box{}
		var wg sync.WaitGroup
		for i := 0; i < 2; i++ {
			wg.Add(1)
			go func() { defer wg.Done(); b.x++ }()
		}
		wg.Wait()
	}},
	{"parameter: field written by two goroutines", ".x", func() {
		b := &box{}
		done := make(chan bool)
		go func() { setX(b, 1); done <- true }()
		setX(b, 2)
		<-done
	}},
	{"parameter: pointer chain", ".y", func() {
		b := &box{next: &box{}}
		done := make(chan bool)
		go func() { setNextY(b, 1); done <- true }()
		setNextY(b, 2)
		<-done
	}},
	{"parameter: one map", ".m", func() {
		b := &box{m: map[string]int{}}
		done := make(chan bool)
		go func() { setM(b, "a", 1); done <- true }()
		setM(b, "b", 2)
		<-done
	}},
	{"parameter: sibling fields and different elements", "", func() {
		b := &box{arr: make([]int, 2)}
		done := make(chan bool)
		go func() { setInnerA(b, 1); setElem(b, 0, 1); done <- true }()
		setInnerB(b, 2)
		setElem(b, 1, 2)
		<-done
	}},
	{"parameter: assignment of a received value", "", func() {
		b := &box{}
		c := make(chan int)
		go func() { setX(b, 1); c <- 5 }()
		recvIntoX(b, c)
	}},
	{"parameter: loop condition against an unsynchronised write", ".x", func() {
		b := &box{}
		done := make(chan bool)
		go func() { setX(b, 1); done <- true }()
		spinOnX(b)
		<-done
	}},
	{"parameter: guarded dereference of nil pointers", "", func() {
		if guarded(nil) || guarded(&box{}) {
			panic("unreachable")
		}
	}},
	{"captured local written by two goroutines", "n", func() {
		n := 0
		done := make(chan bool)
		go func() { n++; done <- true }()
		n++
		<-done
	}},
	{"captured flag read behind && against an unsynchronised write", "flag", func() {
		flag, ok := false, true
		done := make(chan bool)
		go func() {
			if ok && !flag {
				_ = 1
			}
			done <- true
		}()
		flag = true
		<-done
	}},
	{"captured flag behind && that is never evaluated", "", func() {
		flag, never := false, false
		done := make(chan bool)
		go func() {
			if never && !flag {
				panic("unreachable")
			}
			done <- true
		}()
		flag = true
		<-done
	}},
	{"field read behind || against an unsynchronised write", ".y", func() {
		b := &box{}
		done := make(chan bool)
		go func() {
			if b.n != 0 || b.y > 0 {
				_ = 1
			}
			done <- true
		}()
		b.y = 1
		<-done
	}},
	{"flag read in the condition of an if with an init statement", "flag", func() {
		flag := false
		var v any = 1
		done := make(chan bool)
		go func() {
			if _, ok := v.(int); ok && !flag {
				_ = 1
			}
			done <- true
		}()
		flag = true
		<-done
	}},
	{"field read in an else-if condition", ".y", func() {
		b := &box{}
		never := false
		done := make(chan bool)
		go func() {
			if never {
				_ = 0
			} else if b.y > 0 {
				_ = 1
			}
			done <- true
		}()
		b.y = 1
		<-done
	}},
	{"else-if condition that is never reached", "", func() {
		b := &box{}
		always := true
		done := make(chan bool)
		go func() {
			if always {
				_ = 0
			} else if b.y > 0 {
				_ = 1
			}
			done <- true
		}()
		b.y = 1
		<-done
	}},
	{"send and close of a channel without order", "close-vs-send", func() {
		c := make(chan int, 1)
		done := make(chan bool)
		go func() {
			c <- 1 // the close below may come first in another schedule: panic
			done <- true
		}()
		<-done
		<-c
		go func() { done <- true }()
		<-done
		c2 := make(chan int, 1)
		go func() {
			select {
			case c2 <- 1:
			default:
			}
		}()
		close(c2)
	}},
	{"closed flag and send under one mutex (the sender checks the flag)", "", func() {
		c := make(chan int, 4)
		var mu sync.Mutex
		closed := false
		done := make(chan bool)
		go func() {
			for i := 0; i < 2; i++ {
				mu.Lock()
				if !closed {
					select {
					case c <- i:
					default:
					}
				}
				mu.Unlock()
			}
			done <- true
		}()
		mu.Lock()
		close(c)
		closed = true
		mu.Unlock()
		<-done
	}},
	{"closed flag checked under the mutex, send after unlocking", "close-vs-send", func() {
		c := make(chan int, 4)
		var mu sync.Mutex
		closed := false
		done := make(chan bool)
		go func() {
			mu.Lock()
			ok := !closed
			mu.Unlock()
			if ok {
				defer func() { recover(); done <- true }()
				select {
				case c <- 1:
				default:
				}
			}
			done <- true
		}()
		mu.Lock()
		close(c)
		closed = true
		mu.Unlock()
		<-done
	}},
	{"close after the sender has finished (ordered by a channel)", "", func() {
		c := make(chan int, 2)
		done := make(chan bool)
		go func() { c <- 1; c <- 2; done <- true }()
		<-done
		close(c)
		for range c {
		}
	}},
}
