#!/usr/bin/env python3
# tools/confirmseed.py Cxx mN : confirm a seeded change in its scratch worktree (never in /repo):
# demo fails with the patch, suite passes with the patch, demo passes without the patch.
import json, os, re, subprocess, sys, glob, shutil
pid, m = sys.argv[1], sys.argv[2]
wt, sd = os.environ.get("WTPREFIX", "/tmp/wt/") + pid, os.environ.get("SEEDROOT", "/tmp/seed") + f"/{pid}/{m}"
env = dict(os.environ, GOFLAGS="-mod=mod", GOPROXY="off")
def sh(cmd, cwd=wt, timeout=1500):
    p = subprocess.run(cmd, shell=True, cwd=cwd, env=env, capture_output=True, text=True, timeout=timeout)
    return p.returncode, (p.stdout + p.stderr)[-1500:]
meta = json.load(open(f"{sd}/meta.json"))
cmd = meta.get("demo_cmd", "")
demos = [f for f in glob.glob(f"{sd}/*.go")]
mm = re.findall(r"\s\./([\w/\.]+?)/?(?:\s|$|;|&)", cmd + " ")
pkg = [x for x in mm if x != "..."][-1] if mm else None
if len(sys.argv) > 3: pkg = sys.argv[3]
run = re.search(r"-run[ =]'?\"?([^\s'\"]+)", cmd)
runpat = run.group(1) if run else "."
race = "-race " if "-race" in cmd else ""  # demonstrations of data races need the detector
if not pkg or not demos:
    print("CANNOT-PARSE", cmd, demos); sys.exit(2)
sh("git checkout -- . && git clean -fdq")
def place():
    for d in demos: shutil.copy(d, f"{wt}/{pkg}/")
def unplace():
    for d in demos:
        try: os.remove(f"{wt}/{pkg}/{os.path.basename(d)}")
        except FileNotFoundError: pass
res = {}
rc, out = sh(f"git apply {sd}/patch.diff")
if rc != 0: print("PATCH-FAILS", out); sys.exit(2)
place(); rc1, o1 = sh(f"go test {race}-vet=off -count=1 -run '{runpat}' ./{pkg}/"); unplace()
rc2, o2 = sh("go test -vet=off -count=1 ./...")
sh("git checkout -- . && git clean -fdq")
place(); rc3, o3 = sh(f"go test {race}-vet=off -count=1 -run '{runpat}' ./{pkg}/"); unplace()
sh("git checkout -- . && git clean -fdq")
ok = rc1 != 0 and rc2 == 0 and rc3 == 0
print(f"{pid} {m}: demo-with-patch rc={rc1} suite-with-patch rc={rc2} demo-without rc={rc3} => {'CONFIRMED' if ok else 'NOT-CONFIRMED'}")
if not ok: print(o1[-600:], '\n---\n', o2[-600:], '\n---\n', o3[-600:])
sys.exit(0 if ok else 1)
