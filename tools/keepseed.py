#!/usr/bin/env python3
# tools/keepseed.py Cxx mN "<detected by / status>" [ported.diff]  — keep a confirmed seeded change under /verif/seeded/
import json, os, shutil, sys, glob
pid, m, det = sys.argv[1], sys.argv[2], sys.argv[3]
ported = sys.argv[4] if len(sys.argv) > 4 else None
src, dst = os.environ.get("SEEDROOT", "/tmp/seed") + f"/{pid}/{m}", f"/verif/seeded/{pid}-" + os.environ.get("SEEDTAG", "") + m
os.makedirs(dst, exist_ok=True)
for f in glob.glob(src + "/*"):
    shutil.copy(f, dst)
meta = json.load(open(f"{dst}/meta.json"))
if ported:
    shutil.move(f"{dst}/patch.diff", f"{dst}/patch.orig.diff")
    shutil.copy(ported, f"{dst}/patch.diff")
    meta["ported"] = "patch.diff is the same change re-based onto /repo after later fix: commits; patch.orig.diff is what the sub-agent wrote against the earlier commit; both confirmed (demo fails with / passes without, suite passes)"
meta["breaks_property"] = pid
meta["confirmed"] = "tools/confirmseed.py in a scratch worktree: demonstration fails with the change, passes without it, the repository's own suite passes with it"
meta["ran"] = "tools/seedtest.sh <patch.diff> <check> (git -C /repo apply; ./check; git -C /repo checkout -- .)"
meta["detected_by"] = det
json.dump(meta, open(f"{dst}/meta.json", "w"), indent=1)
print("kept", dst)
