#!/usr/bin/env python3
# Generates /verif/MANIFEST.json from the table below (kept here so the manifest is always valid).
import json
BASE = "cd /repo && GOFLAGS=-mod=mod GOPROXY=off go test -vet=off -count=1 -timeout 25m ./..."
checks = {}
def add(pid, cat, text, note, tech, engine, ref):
    checks[pid] = dict(property_id=pid, quick_cmd=f"./check {pid} quick", thorough_cmd=f"./check {pid} thorough",
        evidence_file=f"evidence/{pid}.json", replay_cmd_template=f"./check {pid} --replay {{path}}", engine=engine,
        level_claimed=dict(category=cat, text=text, design_ref=ref), level_note=note, technique=tech)

add("C20", "model_checking",
    "Bounded-exhaustive enumeration of the real PosReport.Message over every whole degree/minute, their 1e-4-minute and 20-ulp neighbourhoods on both axes (about 2.2e6 distinct float64 values), a 400x400 pair grid, all 361 courses x {T,M} x all optional-field subsets; format, range, hemisphere and error bound judged on every one.",
    "Coordinates are formatted independently per axis; inputs outside the enumerated neighbourhoods are covered only by the grid. Trusted: Go fmt/regexp, the oracle's own float arithmetic (1e-9 minute slack).",
    "bounded-exhaustive input enumeration against a format/error oracle", "seq", "DESIGN.md §5 C20")

add("C06", "model_checking",
    "Bounded-exhaustive exploration of the real lzhuf Writer/Reader: every string over {a,b} and {a,space} up to length 10 (12 thorough) and over {a,b,c} up to 7 (8), each under ALL 2^(n-1) partitions into Write calls (also with zero-length writes) and ALL compositions as Read buffer sizes; a structured family (periods 1,2,3,4,59,60,61 x lengths 0..200 x every single / pair of write cuts x read sizes 1..70); a long family up to 400 KB incl. the 0x8000 tree rebuild. Oracle: decoded == input, both Close nil, compressed bytes identical across all partitions.",
    "Inputs beyond the enumerated alphabets/lengths are covered only by the structured and long families (fixed deterministic generators). Trusted: bytes.Equal, the harness' chunking drivers.",
    "bounded-exhaustive enumeration of inputs x write partitions x read compositions on the real codec", "seq", "DESIGN.md §5 C06")
add("C07", "model_checking",
    "Every enumerated input (all strings over five small alphabets up to length 14/9/7/5, 13 periods x lengths 0..400, long family) is compressed by the library and decoded by an independently written canonical LZHUF decoder (header CRC-16/XMODEM and size layout checked by an independent CRC), and compressed by the independent canonical encoder and decoded by the library with Close()==nil; with and without CRC header.",
    "The reference codec is written from the algorithm description (DESIGN.md App. E.1), position code derived from its length histogram, and is anchored at setup to the five golden .lzh files in both directions (byte-identical encoder output). A defect shared by the reference and the library that the goldens do not pin would be missed.",
    "bounded-exhaustive differential check against an independent reference codec anchored to golden vectors", "seq", "DESIGN.md §5 C07")
add("C08", "model_checking",
    "Every stream of a finite family is fed to the real Reader under several Read buffer sizes and source chunkings and read to a terminal result: 12 boundary header sizes x ALL bodies of <= 2 bytes (65 793) and 3-byte bodies over 16 values x {no CRC, good CRC, bad CRC}; for a corpus of valid streams every truncation, every single-bit flip, size/CRC header edits (stale and resealed), trailing data, and all prefix/suffix splices of the short streams. Oracle: terminates (deterministic 64x(0,nil) livelock rule), never more bytes than declared, no panic, Close()==nil only if size, canonical decoding and CRC all agree.",
    "Close verdict judged against the weakest reading (see DESIGN.md §5 C08). Streams outside the mutation families are not explored.",
    "bounded-exhaustive enumeration of malformed streams against an independent decoder/CRC oracle", "seq", "DESIGN.md §5 C08")

add("C18", "model_checking",
    "Every sequence of up to 4 (thorough 5) tokens over an 18-token alphabet (a, é, ÿ, LF, CRLF, lone CR, space, runs of 996..999 a, 997 a + é, 499 é, 998/997 a + space, runs of 65534/65536/70000 a) is set as body through the real SetBody / SetBodyWithCharset; judged on the serialised bytes: CRLF line ends, no line over 1000 bytes, CR/LF-stripped text identical to the Latin-1 input, Body header == stored length, Body() and the re-parsed message decode to the same text.",
    "Texts are compositions of the alphabet tokens; at most 1 (thorough 2) of the 64 KiB-class tokens per text. Trusted: the oracle's own Latin-1 conversion.",
    "bounded-exhaustive enumeration of token sequences against the statement's normalisation relation", "seq", "DESIGN.md §5 C18")

add("C09", "model_checking",
    "Deviation-bounded product over ten component alphabets of a message (To and Cc lists of 0..3 from six address forms, 9 subjects incl. Latin-1/75/76-byte/precedence/=?_ ones, 6 dates, 6 types, 9 bodies, attachment lists of 0..3 from 8 byte patterns, 6 naming schemes incl. Latin-1/255-byte/duplicate names, extra X- headers, 6 reader chunkings): every vector with <= 2 non-default components (thorough adds <= 3 with lists <= 2) is built through the public API, serialised, parsed through a chunked reader, compared (headers, body, attachments, accessors before and after) and re-serialised (byte equality).",
    "Excluded because the format leaves latitude: header values with surrounding blanks or CR/LF, text not representable in ISO-8859-1, literal RFC 2047 encoded-words as input.",
    "deviation-bounded exhaustive product of message components x reader chunkings; round-trip and canonicity oracle", "seq", "DESIGN.md §5 C09")
add("C19", "model_checking",
    "Parsing: 243 000 component tuples (6 schemes x 5 userinfo x 5 hosts x 45 digipeater paths x 5 targets x 6 query strings) composed with net/url's own escaping and parsed by the real ParseURL, every field compared; all 3.26e6 raw strings of length <= 6 over a 12-symbol alphabet for the never-panics clause. Registry/dispatch under concurrency: see level_note.",
    "The concurrent register/unregister/dial part is decided by the govs engine (controlled scheduler over the rewritten transport package); until that part reports registry_* keys in the evidence only the parsing and refusal clauses are decided by this check.",
    "bounded-exhaustive tuple and raw-string enumeration (parsing); schedule exploration of the registry via govs", "seq+govs", "DESIGN.md §5 C19")

add("C01", "model_checking",
    "Two real fbb.Sessions exchange over a deterministic duplex link (only the baton holder runs; every Read result is a function of stream content and the segmentation plan). Deviation-bounded product (<= 2 non-default components, thorough <= 3) over message-set shapes both ways (0..16 messages, 24 message variants incl. compressed sizes at exact multiples of 125, attachments, Latin-1, precedence, long titles, short/equal MIDs), 108 answer-policy patterns (all 3^n for n<=4), role, MOTD, GZIP_EXPERIMENT per side, batched/plain handlers, 13 segmentation plans, plus every single read-cut offset in both directions for base scenarios. Oracle: exactly-once byte-identical delivery, SetSent/SetDeferred per answer, stats, nil errors, Close, <=5 proposals per block, one framed transfer per accepted proposal on the wire.",
    "Handlers follow the MBoxHandler doc contract. Schedules: the two stations form a Kahn network over FIFO streams, so timing is reduced to segmentation, which is enumerated; the progress-reporter goroutines are inert without a StatusUpdater (C17 covers them).",
    "stateless exploration of two real Sessions on a deterministic link; deviation-bounded scenario product x segmentation plans", "link", "DESIGN.md §5 C01")
add("C05", "model_checking",
    "A real Session talks to an independently written strict B2F peer (validates SID, ;FW, handshake comment, prompt, proposal syntax and block checksum, <=5 per block, precedence-then-size order within and across blocks, one answer per proposal, SOH/STX/EOT framing, title 1..80 printable ASCII, offset, EOT checksum, CRC-16+size payload decoded by the reference LZHUF, FF/FQ rules, nothing after FQ). Deviation-bounded product (<=2, thorough partly <=3) over 18 components incl. every data block size 1..256 and cycling, every answer spelling, comment/;PM placement, MOTD, ;FW with hashes, six SIDs, CMS-style early FQ, duplicate MIDs, checksum case, role, library configuration and segmentation. Oracle: no complaint, nil error, handler callbacks as the protocol prescribes.",
    "The peer is written from docs/F6FBB-B2F + DESIGN.md App. E.2/H. Answer E excluded. Early FQ only after the Session said FF (as the CMS does).",
    "stateless exploration against an independent reference peer; deviation-bounded product over peer encoding choices", "link", "DESIGN.md §5 C05")

add("C04", "fault_enumeration",
    "For each of 3 (thorough 6) messages, one clean sender/receiver exchange locates the SOH..EOT range with the reference frame parser; then every offset x all 255 substitution values, every single deletion, insertions of 00/01/02/04/FF at every offset, checksum-compensating +d/-d pairs at distance 1..8 on data bytes, adjacent swaps and data-byte/EOT-checksum pairs are applied in transit and the full two-station exchange is re-run. Oracle: ProcessInbound never called for the damaged transfer, receiver's Exchange returns an error (no panic), sender never calls SetSent(mid,false). Alterations the independent frame parser + LZHUF/CRC reference accept as fully valid are excluded (counted).",
    "The quick tier uses a 6-value menu per byte for the multi-chunk message (full sweep in thorough). Damage is a single contiguous or two-point alteration; bursts are not enumerated.",
    "exhaustive fault enumeration (offset x alteration menu) on two real Sessions over the deterministic link with a man in the middle", "link", "DESIGN.md §5 C04")

add("C16", "model_checking",
    "A real slave Session is run against a scripted master issuing ;PQ for every decimal challenge of length 1..5 (thorough 6), the ten dddddddd challenges, the published vector and alphanumeric/64-character ones, x six passwords (ASCII, tilde, one character, 40 characters, Latin-1, with spaces); 12 auxiliary-address configurations (password known / unknown / callback error, up to three addresses) and nil / failing callbacks on a sub-lattice. Oracle: ;PR equals an independent implementation of the stated algorithm, ;FW items are addr|response iff the password is known, handshake fails without callback or on a callback error for the main address, no password bytes in anything the Session wrote. Digest classes hit are counted in the evidence.",
    "The reference is written from the property text and anchored to the published vector 23753528/FOOBAR -> 72768415. Challenges with surrounding whitespace are excluded (the line reader trims).",
    "bounded-exhaustive enumeration of challenges x passwords x aux configurations against an independent reference", "link", "DESIGN.md §5 C16")

add("C02", "model_checking",
    "Explicit-state search over mailbox states (per message: pending/sent/rejected at the sender, held or not at the receiver) for 10 (thorough 12) two-station scenarios: BFS to a fixpoint where each transition is one complete session of two real Sessions from that state under one fault plan - every cut offset k in each direction (coupled link failure; in-flight bytes delivered or lost; writes failing at once / never / after f calls; EOF or connection reset), a storage error at every inbound index, thorough: all cut pairs (kAB,kBA). Invariants on every transition: both calls return without a deadlock, SetSent(mid,false) only if the peer's handler completed ProcessInbound(mid), SetSent(mid,true) only if the peer holds it, delivered bytes identical, no duplicate delivery; from every reachable state one clean session reaches the goal (everything delivered exactly once and reported sent, deferred stays pending).",
    "In-memory reference handler implementing the MBoxHandler contract, and the real DirHandler in the dir-* scenarios (without deferral policies and duplicate offers, which the directory mailbox cannot express; a SetSent for a message that is not in the outbox is reported instead of being passed on, because the real handler would end the process). Bounded time = no deadlock under the link's scheduler (the Session sets no read deadline; a cut is visible to both ends as EOF/reset).",
    "explicit-state BFS over mailbox states; transitions = real sessions under exhaustively enumerated cut / storage-fault plans", "link", "DESIGN.md §5 C02")
add("C03", "fault_enumeration",
    "A real Session is run against scripted remote byte strings: 12 base transcripts recorded from the reference peer (both roles, with/without outbound pending, 0/1/2 inbound messages) x every offset x {truncate, delete, 14 substitutions, 12 insertions}; every numeric token x 9 boundary values; every line x {drop, duplicate, replace/insert 39 protocol fragments}; the same one layer down with outer layers re-sealed by the references: compressed payload bytes (frame + block checksum recomputed, also CRC resealed), LZHUF size field (12 values), and the decompressed message (every truncation, header byte edits, Body/File sizes -1/0/+-1/1e10/3e9/2^31-1, missing blank line / Date / Mid, 1e5-byte header line) recompressed and re-framed; all strings of length <= 3 over a 12-byte protocol alphabet at the protocol positions. Each case runs in an isolated worker under a watchdog and an address-space limit. Oracle: Exchange returns, no panic in any goroutine, no process death, allocation <= 64 MiB + 4096 x bytes received, connection closed.",
    "A CPU spin is believed only after a 20 s watchdog stall and three 30 s solo re-runs (cases normally take < 1 ms). After a confirmed hang in a mutation layer its remaining cases are skipped in restarted workers (reported as a cap, exhaustive=false).",
    "exhaustive fault enumeration (position x mutation menu at four protocol layers) with process isolation", "link", "DESIGN.md §5 C03")
add("C10", "model_checking",
    "Explicit-state BFS on the real mailbox.DirHandler (tmpfs), depth 8 (thorough 12): universe of five outbound messages (one recipient; two recipients; P2P-only; To+Cc; Cc-only), two inbound MIDs, seven forwarder lists (CMS, callsign, other, both, lower case, @winlink.org, SMTP), operations AddOut, Prepare, GetOutbound, SetSent, SetDeferred, ProcessInbound, GetInboundAnswer, SetUnread, Restart (normal / send-only). Each transition replays the shortest path on a fresh directory, applies one operation to the real handler and to a reference model in lockstep and compares the result and all four folder listings and counts. State key = model state + hash of the directory tree + reflective dump of the handler's in-memory fields.",
    "Driver respects the documented contract (session operations after Prepare; SetSent/SetDeferred for MIDs in the outbox; AddOut for new MIDs). Folders exist before the first operation.",
    "explicit-state BFS of the real implementation in lockstep with a reference model", "seq", "DESIGN.md §5 C10")

add("C11", "fault_enumeration",
    "The real mailbox code runs over a file-system seam (os / io/ioutil routed through thin wrappers by a generated build overlay; the kernel stays the model of POSIX). For 49 histories (mailbox pre-populated at three levels; interrupted ProcessInbound of a new / existing / two messages, AddOut new / re-post of a sent message, SetSent plain / rejected / P2P-only, SetUnread true/false, Prepare on an empty directory; three message sizes) EVERY crash plan is executed: before each mutating primitive (open-for-write, write, fsync, close, rename, remove, mkdir, chmod, createtemp) and after every prefix length of every write. After each simulated kill a fresh DirHandler must Prepare, load all four folders, show every previously stored message byte-identical, keep outbound messages in exactly one of out/sent, answer 'already received' only with a complete inbox copy, and still offer the other outbound messages.",
    "Process death (page cache survives), not power loss. The simulated kill is a sentinel panic recovered by the harness (DirHandler keeps nothing in memory that matters, leaked descriptors are closed); a sample of plans (every 2000th, thorough every 50th) is re-run in a child that really receives SIGKILL at the crash point and must leave the same directory tree.",
    "exhaustive crash-point enumeration (every FS primitive x every write prefix) on the real code over a file-system seam", "crashfs", "DESIGN.md §5 C11")
add("C12", "model_checking",
    "Inside a sandbox tree with decoy files and directories at every level, ProcessInbound, GetInboundAnswer and SetDeferred are called with every MID of up to 5 tokens over {a, /, .., ., backslash, NUL} (9 330) plus special strings (empty, 300 bytes, non-ASCII, absolute, tilde, encoded), and with hostile values in 13 other headers (X-FilePath forms incl. mailbox-prefix tricks, attachment names); the session path runs a real Session with the real DirHandler against the reference peer proposing hostile MIDs and sending messages whose Mid header is hostile (4 400 sessions, both roles). Oracle: a recursive snapshot (path, size, mtime, inode, mode, content hash) of the sandbox outside the mailbox is unchanged, and every mutating primitive logged by the file-system seam lies under the mailbox root.",
    "AddOut with a hostile MID is a local action outside the property. Panics/errors on hostile identifiers are C03's concern; for the sent-marking cases a process that dies without touching anything outside is fine.",
    "bounded-exhaustive enumeration of identifiers against a snapshot + seam-log confinement oracle", "seq+crashfs+link", "DESIGN.md §5 C12")

add("C15", "model_checking",
    "The telnet package is rewritten from the working tree (sync/time/context/net routed to scheduler shims) and run under a controlled scheduler with virtual time and an in-memory network: (a) clean stream - a Listen/Accept server thread and a Dial* client thread for 7 callsign/password pairs (incl. empty, with spaces, non-ASCII, 200 characters), 4x4 post-login payload pairs (empty, 1 byte, B2F handshake lines, all 256 byte values), segmentation plans (coalesced, every byte, every 2/7 bytes, every single cut offset 1..40), a session that idles past the dial deadline; (b) deadline - DialContext / DialTimeout / Dialer.DialURL with a 300 ms deadline against 9 scripted servers (never accepts, silent, partial prompt, garbage without CR, callsign prompt then silence, both prompts then silence, closes at once, dribbles a byte per 150 ms, wrong prompts). All schedules are explored in CHESS mode with iterative preemption bounding (stream: bound 1, thorough 2; deadline: bound 2, thorough 3). Oracle: RemoteCall equals the dialled callsign, each side reads exactly the other's payload (a lost byte shows as a scheduler-detected deadlock), the dial has returned by the virtual deadline.",
    "Timer-first deviations are disabled in the stream scenarios (an early-expiring dial deadline is legitimate behaviour). Virtual time only advances through timers.",
    "stateless schedule exploration (CHESS-mode iterative preemption bounding) of the rewritten package under a controlled scheduler with virtual time", "govs", "DESIGN.md §5 C15")

add("C17", "model_checking",
    "The fbb package is rewritten from the working tree (channels, select, go statements, tickers under the controlled scheduler; package-level variables and go-captured locals instrumented with vs.Access at their real addresses) and two real Sessions with recording StatusUpdaters exchange 1-2 messages each way of three sizes (2, 3 and about 20 data blocks) over an in-memory link whose writes take 0 / 100 ms / 300 ms of virtual time (so the 250 ms ticker fires never / sometimes / between any two writes), with transports that do not report, report 0, report more than remains, or report a draining transmit-buffer length. Schedules: CHESS-mode iterative preemption bounding (bound 1, thorough 2) plus timer-first deviations. Oracle on every execution: no happens-before data race on any instrumented location; every Status has 0 <= BytesTransferred <= BytesTotal == the proposal's compressed size and names exactly the message in flight; per transferred message and side exactly one Done report and it is the last (judged after all goroutines have come to rest).",
    "Race oracle = vector clocks over channel, mutex, atomic, go and timer edges; exact for the instrumented accesses (identity = address), silent about memory only reached through pointers handed to un-instrumented code. Executions per scenario are capped (reported in caps_hit).",
    "stateless schedule exploration of the rewritten package with a happens-before race oracle and virtual time", "govs", "DESIGN.md §5 C17")

add("C13", "model_checking",
    "The agwpe package is rewritten from the working tree and run under the controlled scheduler (TNC read loop, the demultiplexer chain goroutines, connection helpers and the application are scheduler threads; virtual time; in-memory TCP) against an independently written AGWPE TNC simulator that validates every host frame (36-byte header, port, kind, PID 0xF0, callsigns, DataLen, digipeater list) and answers R/g/X/C/v/D/Y/d/x as the protocol prescribes. Scenarios: inbound data (ports 0 and 1; frame sizes 1..300; frames for unrelated stations, for stations whose callsign extends / is a prefix of the peer's, and for the other port interleaved; caller buffers 1, 7, 300, 4096; TNC->host segmentation none / every byte / every 36 bytes / EVERY single cut offset; paced TNC, bursts, one-segment bursts, late readers up to the 10-slot queue), outbound data with Y polling whose count drops after every 1st/2nd/3rd poll, Flush and Close, handshakes (X refused, g absent, C and v with 1-2 digis, connect refused / silent with context timeout, inbound connect accepted / nobody accepting, version), 9 malformed TNC inputs. Schedules: delay-bounded exploration, iteratively deviation bound 0..1 (thorough 2). Oracle: Read yields exactly the connection's payloads in order then EOF, nothing foreign, TNC receives well-formed frames carrying exactly the written bytes, Flush returns only at 0 outstanding, Close sends d, no panic, every application call returns.",
    "Open known finding C13|frame-dropped|demux.Enqueue (event-level): executions in which the non-blocking enqueue drops a frame are set aside and counted (poisoned_by_known_finding), all others are judged in full. Timers fire only when every thread is blocked (early timeouts are legitimate). For malformed TNC input only 'no crash' is demanded. Unsynchronised struct fields are outside the race oracle; race freedom is not claimed.",
    "stateless delay-bounded schedule exploration of the rewritten package against a reference TNC simulator", "govs", "DESIGN.md §5 C13")

add("C14", "model_checking",
    "The ardop package is rewritten from the working tree and run under the controlled scheduler (stream decoders, control loop, writer, broadcaster, beacon, listener and application are scheduler threads; virtual time) against an independently written ARDOP TNC simulator with an independent host-interface codec (prefix, big-endian length, CRC anchored to the baseline test's vectors), in serial (CRC) mode through Open(io.ReadWriteCloser) and in TCP mode through OpenTCP on the in-memory network. Scenarios: open/init (incl. OFFLINE), dial (CONNECTED / FAULT / NEWSTATE DISC), listen+accept, inbound ARQ frames of 1..65532 bytes with read buffers 1 / 1000 / 65536, TNC->host segmentation none / every byte / every 7 bytes / EVERY single cut offset, writes of 1..70000 bytes with three BUFFER/PTT reply orders, CRCFAULT injected 1..3 times, Flush, Close answered by DISCONNECTED / NEWSTATE DISC / silence (virtual 30 s abort), 13 malformed inputs on control and data streams. Delay-bounded exploration, iteratively bound 0..1 (thorough 2). Oracle: Read yields exactly the ARQ payloads then EOF; the TNC receives correctly framed commands and data whose payloads are exactly what Write reported as accepted, identical retransmission after CRCFAULT and an error after three; Flush/Close return; DISCONNECT is sent; PTT calls arrive in order; no panic in any goroutine.",
    "Paced TNC model (BUFFER n > 0 precedes BUFFER 0). Timers fire only when every thread is blocked. For malformed TNC input only 'no crash' is demanded. Unsynchronised TNC struct fields are outside the race oracle; race freedom is not claimed.",
    "stateless delay-bounded schedule exploration of the rewritten package against a reference TNC simulator", "govs", "DESIGN.md §5 C14")

# additions after the second round of seeded changes (DESIGN.md §11.4)
more = {
 "C01": " Round 2: message variants with block checksum 00 and an empty first attachment.",
 "C02": " Round 2: two scenarios in which the sending mailbox offers one MID twice while it is pending (the library's duplicate handling under every cut). Real directory mailbox: three (thorough four) scenarios run both stations on mailbox.DirHandler in tmpfs directories built in each BFS state with the handler's own operations; the calls are recorded by a thin wrapper and, in addition, the directories are the ground truth (a message is in out/ xor sent/, in in/ iff ProcessInbound completed, and that agrees with what was reported).",
 "C03": " Round 2: proposal fields altered with the block checksum re-sealed.",
 "C04": " Round 2: multi-message blocks (damage in the second/third message of a block).",
 "C05": " Round 2: a peer that holds messages back for some turns.",
 "C07": " Round 2: the library's stream is also produced with the input split over several Write calls (first write of 1/10/59/60/61 bytes or half the input, byte-wise and 7-wise for inputs up to 600 bytes, an empty Write first) and each differing stream is judged the same way.",
 "C12": " Round 2: decoy files (garbage and well-formed messages) at every level including the mailbox's parent, a '../' token, 584 operation sequences of length 2-3 over {Prepare, Answer, batched Answers, Process, SetDeferred, GetOutbound} x {hostile, valid identifier} for 9 hostile identifiers (what one call records another may use), and sessions whose proposal carries the hostile identifier while the message's Mid header is valid.",
 "C13": " Round 2: reads that start only after the disconnect frame has been digested.",
 "C14": " Round 2: late reads after DISCONNECTED, and garbage control lines while Listen/Accept is active.",
 "C15": " Round 2: post-login reads of 1/3/8 bytes (less than what the login reader may still hold) and the URL dial paths (Dialer.DialURLContext with a context deadline shorter than the dialer timeout, transport.DialURLContext through the registry, dial_timeout parameter).",
 "C16": " Round 2: seven passwords with white space / control characters at either end or consisting of white space only, an auxiliary password with a trailing space and one of a single space, and every challenge of up to 3 symbols over {0,7,A,Q,P,;,:,space,|,>} (the characters of the ';PQ: ' prefix and the separators).",
 "C17": " Round 2: struct fields behind pointers (Session, Proposal, ... fields) are instrumented as well, so races between the reporter goroutines of consecutive messages on Session state are seen. Supplementary (not deciding): the same harness bodies run free on the real runtime under Go's race detector (verif/racecheck, go test -race; 78 exchanges per round, 1 round quick / 12 thorough) - the controlled scheduler's hand-offs are happens-before edges that would blind the detector, so this pass is separate; a report there is a violation, its silence decides nothing.",
 "C18": " Round 2: boundary sweep - one two-byte character at every byte offset p with p mod 512 in {509,510,511,0,1} (thorough: every offset) of a 140 KiB normalised text with 64- and 63-byte lines, so that it straddles every power-of-two block boundary a processing stage may use.",
}
notes = {
 "C17": "Race oracle = vector clocks over channel, mutex, atomic, go and timer edges; exact for the instrumented accesses (identity = address): package-level variables, locals captured by go-closures and struct fields reached through pointers; conditional operands (right of && / ||), slice/array elements and memory only touched by un-instrumented code (standard library internals) are not tracked - the oracle under-approximates, it never reports an ordered pair (25 conformance programs at setup). Executions per scenario are capped (reported in caps_hit).",
}
# additions after the third round of seeded changes
more3 = {
 "C01": " Round 3: incompressible message variants (2500 / 5000 random attachment bytes: compressed size above the uncompressed size).",
 "C02": " Round 3: one cut variant per tier on a flow-controlled link (writes block while the window is unread; a sender can still be writing when the peer has hung up), and in the dir-* scenarios a genuine file-system failure (the inbox directory replaced by a regular file during the j-th ProcessInbound) next to the wrapper-injected storage error.",
 "C03": " Round 3: 17 well-formed protocol lines (;PM:, ;FW:, ;PQ:, comment, FC, FS forms, SID, prompts) in the replace/insert menu, and an fs-offset layer (FS !n / FS An for 18 offsets around the compressed and the uncompressed size of the library's own proposal).",
 "C04": " Round 3: the multi-message block cases also run on flow-controlled links (windows 1 and 300, writes to a closed peer fail), so that the sender-side clause is judged while the sender is still writing a later message of the block.",
 "C07": " Round 3: binary-like 120 KB inputs (byte values 00/01/FF/FE frequent enough to sit high in the adaptive tree across a rebuild) in the long family; the reference's stream also reaches the library in pieces of 1, 3 and 5 bytes.",
 "C08": " Round 3: the enumeration runs in supervised worker processes (stream in flight recorded, 30 s watchdog): a Read that spins inside the decoder is reported as C08|read-never-returns with that stream instead of hanging the check; after three such events the remaining shares are abandoned (cap).",
 "C11": " Round 3: the seam gives temporary files deterministic names (a counter reset at every crash plan), so the real-SIGKILL cross-check compares trees whatever naming scheme the code uses.",
 "C12": " Round 3: marking sent - SetSent(mid, false/true) for every identifier of up to 4 tokens, each in a child process (the handler ends the process when its rename fails), with and without a listed outbox file whose name is not its MID and whose Mid header is the hostile identifier.",
 "C13": " Round 3: malformed answers (data field of 0/3/8/5 bytes) to the host's own outstanding-frames polls; malformed input at four moments; five deep scenarios explored one deviation deeper from the established connection on.",
 "C14": " Round 3: four deep scenarios explored to deviation bound 2 (thorough 3) from the first Write on, complete in every tier.",
 "C15": " Round 3: two overlapping sessions on one listener (the first accepted connection is read after the second login; sync.Pool is a deterministic shim whose 'forget' is an environment choice), and servers that send complete lines slowly (garbage lines every 0.6 T, genuine prompts 0.8 T apart).",
 "C17": " Round 3: a scripted CMS-style remote accepts the sender's proposal at an offset (FS !n / FS An; n = 1, 40, 125, compressed size - 1) - the resumed-transfer path.",
 "C18": " Round 3: tokens Ã and © (Latin-1 text whose bytes are also well-formed UTF-8).",
 "C19": " Round 3: the empty target (path ending in a slash) in the tuples; a dialer that dials another scheme through the registry itself while that scheme is re-registered (must return, with one of the two dialers).",
 "C10": " Round 3: operations ProcessInboundAll (both inbound messages in one variadic call, both orders) and SetUnreadTwice (list once, two marks on the same message value).",
}
for k, v in more3.items():
    more[k] = more.get(k, "") + v
# additions after the fourth round of seeded changes
more4 = {
 "C02": " Round 4: a station that is still calling Read/Write after 150 000 link operations is stopped by the link (HorizonAbort) and reported as no-termination.",
 "C04": " Round 4: a 70 000-byte message (size-dependent paths): sum-preserving pairs, substitutions and checksum-compensated changes at every 97th (thorough 13th) data byte.",
 "C05": " Round 4: the forwarder list handed to GetOutbound must be exactly the addresses of the peer's ;FW line.",
 "C07": " Round 4: sources that return the last piece together with io.EOF.",
 "C09": " Round 4: history independence - the same message built in another order with Bytes()/Proposal() at every intermediate stage ends in the same bytes, and Write agrees with Bytes.",
 "C11": " Round 4: after the simulated kill every primitive the dead process still issues (deferred functions run while the sentinel unwinds) is a no-op; the recovery check also asks the batched answer method a Session prefers.",
 "C13": " Round 4: a second session with the same station on one port (after a closed one, after a refused dial), MAXFRAME 0/1/2/7 in the 'g' reply.",
 "C14": " Round 4: serial mode, the first ARQ frame right behind CONNECTED (dial and listen).",
 "C15": " Round 4: a scripted server that sends both prompts and its payload in one write (payload coalesced with the last login line at the dialler), payloads beginning with LF / CRLF / white space, credentials containing '%'.",
 "C16": " Round 4: four orders of the remote's handshake lines; auxiliary sets that contain the session's own call.",
 "C17": " Round 4: the updater reads Title(); subjects of 110 characters (longer than the transfer's title field).",
 "C18": " Round 4: the setter 'SetBody after an earlier, longer SetBody' on sequences of up to 3 tokens (incl. the empty text).",
 "C19": " Round 4: targets whose upper-casing changes their length (U+017F, U+0131); a dial of a never-registered scheme containing '+'.",
}
for k, v in more4.items():
    more[k] = more.get(k, "") + v
# additions after the fifth round of seeded changes
more5 = {
 "C01": " Round 5: a message-set shape with MIDs that differ only in case, and lower-case MIDs.",
 "C02": " Round 5: a scenario with lower-case / mixed-case MIDs.",
 "C05": " Round 5: a peer that says FQ early hangs up at once (writes to the closed peer fail).",
 "C06": " Round 5: six very skewed 150 000-byte inputs (a dozen values with geometrically falling weights plus a thin sprinkle of all other values) that push codes of the adaptive tree to 16 bits.",
 "C10": " Round 5: AddOutV2 (the first message posted again with other content once it has been sent); the To+Cc message of the universe is P2P-only.",
 "C11": " Round 5: histories ProcessInbound-longmid (248-character identifier) and SetUnread-third-change.",
 "C12": " Round 5: the session part points TMPDIR into a watched tree of its own.",
 "C13": " Round 5: malformed answers to the polls Close issues, with the demand that Close still performs the disconnect exchange.",
 "C14": " Round 5: FEC / ERR / ID data frames between the ARQ frames.",
 "C15": " Round 5: credentials containing line feeds.",
 "C19": " Round 5: a bracketed IPv6 host without a port.",
}
for k, v in more5.items():
    more[k] = more.get(k, "") + v
more6 = {
 "C01": " Round 6: a MOTD with bracketed tokens inside its text.",
 "C02": " Round 6: long-lived handler chains on the real DirHandler (a session under every fault plan with deferrals, then a clean session on the same two handler objects, which must reach the goal).",
 "C03": " Round 6: the layer line-flood (up to 500 000 empty / blank / comment lines in front of every protocol line) with workers under an 8 MiB goroutine stack limit.",
 "C05": " Round 6: library configuration 5 (secure-login challenge, one auxiliary address with and one without a password) and the oracle that the ;FW line names the session's address and every auxiliary address in order.",
 "C06": " Round 6: 16 deep-code inputs of 120-140 KB (match lengths with Fibonacci-like counts above a mass of once-used symbols) that drive the adaptive tree to codes of 17 and 18 bits.",
 "C07": " Round 6: the deep-code inputs (17 and 18 bit codes) in the long family.",
 "C09": " Round 6: SMTP addresses whose domain merely ends in winlink.org.",
 "C10": " Round 6: AddOutV3 (a posting of exactly the same serialised size with other content, also over the copy still in the outbox); an inbound MID with the characters _ - . and lower case.",
 "C11": " Round 6: histories ProcessInbound-oddmid (MID K7:AB+CD@1_2) and SetSent-xdev (rename between folders fails with EXDEV; log.Fatal / os.Exit end the simulated process at that point).",
 "C12": " Round 6: session cases on a send-only handler with hostile proposal MIDs.",
 "C13": " Round 6: dial context cancelled as soon as the dial has returned; hang-up and port shutdown under traffic with late frames behind the disconnect acknowledgement; close-vs-send happens-before oracle (a send not ordered with the close of its channel is reported from every schedule containing both).",
 "C14": " Round 6: a second caller on the same listener; 4200 six-byte frames while the application is busy for 10 s (bound 0); a TNC that is gone right behind its answer to the k-th host command, k = 1..10; close-vs-send oracle.",
 "C15": " Round 6: both sides hang up after their last write; vnet models SO_LINGER 0 (abortive close); executions that end at the horizon (spinning dial) are reported without expanding their choice points; close-vs-send oracle.",
 "C16": " Round 6: cases with a prior failed attempt on the same Session (another challenge, link dropped after the handshake).",
 "C17": " Round 6: a transport with a transmit queue whose Flush blocks for 600 ms; accesses in guarded operands (&&, ||), if-init and else-if conditions are recorded when evaluated.",
 "C18": " Round 6: setter SetBody-Body-SetBody (the earlier body read back and rendered in between).",
 "C19": " Round 6: query parameter names with capitals, two names differing only in case, Host= (which is not host=).",
}
for k, v in more6.items():
    more[k] = more.get(k, "") + v
more7 = {
 "C06": " Round 7: every Write comes in a scratch buffer that is overwritten as soon as Write has returned (a Writer must not retain the caller's slice).",
 "C07": " Round 7: an input of 16 MiB + 4321 bytes (the size needs all four bytes of the header field).",
 "C08": " Round 7: every stream is also read by a consumer that takes exactly the declared number of bytes and closes without seeing the end of the stream (a success of Close must be as sound as after a complete read).",
 "C09": " Round 7: a body of a little more than 64 KiB.",
 "C13": " Round 7: the TNC is gone right behind its k-th frame to the host (k = 1..8), with the application's clean-up call.",
 "C14": " Round 7: the TNC-gone scenarios end with the application's clean-up call tnc.Close().",
 "C16": " Round 7: callback mode 3 (a non-empty string together with an error).",
 "C18": " Round 7: the token %.",
 "C20": " Round 7: reports without a latitude and/or a longitude, with every combination of the other optional fields.",
}
for k, v in more7.items():
    more[k] = more.get(k, "") + v
for k, v in more.items():
    checks[k]["level_claimed"]["text"] += v
for k, v in notes.items():
    checks[k]["level_note"] = v
checks["C13"]["level_note"] = checks["C13"]["level_note"].replace("Unsynchronised struct fields are outside the race oracle; race freedom i", "Race freedom of the agwpe package i")
checks["C14"]["level_note"] = checks["C14"]["level_note"].replace("Unsynchronised TNC struct fields are outside the race oracle; race freedom is not claimed.", "Race freedom of the ardop package is not part of the property and not judged.")
checks["C15"]["level_note"] += " In the deadline scenarios 'returns no later than the deadline' is judged on schedules in which virtual time only advanced with every thread blocked (a timer-first deviation delays the dialling thread itself by an arbitrary amount); those schedules are still judged for 'never returns' and panics."

ids = [json.loads(l)["id"] for l in open("/verif/properties.jsonl")]
na = [dict(property_id=i, reason="check not built yet in this session (planned, see DESIGN.md §5); not claimed until its command exists and is green") for i in ids if i not in checks]
m = dict(version=1,
    setup_cmd="cd /verif && ./setup.sh",
    hooks=dict(guard="verif", enable="cd /verif && bin/vrewrite -out $D -govs transport,transport/telnet,transport/ax25/agwpe,transport/ardop,fbb -vfs mailbox && go build -overlay $D/overlay.json -tags verif ./cmd/vgovs (done by ./check). No source hooks in /repo: instrumentation is generated from the working tree at check time and applied with `go build -overlay <generated>.json -tags verif`", baseline_off_cmd=BASE, source_commits=[], add_only=True),
    engines=[
        dict(name="link", path="link/ sess/ ref/b2f/", serves_properties=["C01","C02","C03","C04","C05","C16"], kind_free_text="two-party deterministic link (baton scheduler, segmentation/cut plans, scripted remotes) driving real fbb.Sessions in isolated worker processes"),
        dict(name="govs", path="vs/ cmd/vrewrite/ gprops/ hooks/", serves_properties=["C13","C14","C15","C17","C19"], kind_free_text="source-to-source rewriter (channels, select, go, shimmed sync/atomic/time/context/net/runtime, vs.Access instrumentation) + controlled scheduler runtime (baton threads, virtual time, in-memory network, happens-before race oracle) + deviation-bounded / CHESS-mode DFS explorer with replay"),
        dict(name="crashfs", path="vfs/ cmd/vrewrite/ gprops/", serves_properties=["C11","C12"], kind_free_text="file-system seam injected by a generated go build -overlay (imports of os / io/ioutil rewritten), crash plans = (mutating primitive k, write prefix j), real SIGKILL cross-check"),
        dict(name="seq", path="props/", serves_properties=["C06","C07","C08","C09","C10","C12","C16","C18","C19","C20"], kind_free_text="bounded-exhaustive enumeration / explicit-state BFS over the real sequential code"),
    ],
    checks=[checks[k] for k in sorted(checks)],
    not_applicable=na,
    notes="Every check rebuilds from /repo's working tree (go build; content-addressed cache). Known findings: known_findings.json. See DESIGN.md.")
json.dump(m, open("/verif/MANIFEST.json", "w"), indent=1)
print("claimed", sorted(checks), "na", len(na))
