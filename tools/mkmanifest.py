#!/usr/bin/env python3
# Generates /verif/MANIFEST.json from the table below (kept here so the manifest is always valid).
import json
BASE = "cd /repo && GOFLAGS=-mod=mod GOPROXY=off go test -vet=off -count=1 -timeout 25m ./..."
checks = {}
def add(pid, cat, text, note, tech, engine, ref):
    checks[pid] = dict(property_id=pid, quick_cmd=f"./check {pid} quick", thorough_cmd=f"./check {pid} thorough",
        evidence_file=f"evidence/{pid}.json", replay_cmd_template=f"./check {pid} --replay {{path}}", engine=engine,
        level_claimed=dict(category=cat, text=text, design_ref=ref), level_note=note, technique=tech)

add("C20", "model_checking",
    "Bounded-exhaustive enumeration of the real PosReport.Message over every whole degree/minute, their 1e-4-minute and 20-ulp neighbourhoods on both axes (about 2.2e6 distinct float64 values), a 400x400 pair grid, all 361 courses x {T,M} x all optional-field subsets; format, range, hemisphere and error bound judged on every one.",
    "Coordinates are formatted independently per axis; inputs outside the enumerated neighbourhoods are covered only by the grid. Trusted: Go fmt/regexp, the oracle's own float arithmetic (1e-9 minute slack).",
    "bounded-exhaustive input enumeration against a format/error oracle", "seq", "DESIGN.md §5 C20")

add("C06", "model_checking",
    "Bounded-exhaustive exploration of the real lzhuf Writer/Reader: every string over {a,b} and {a,space} up to length 10 (12 thorough) and over {a,b,c} up to 7 (8), each under ALL 2^(n-1) partitions into Write calls (also with zero-length writes) and ALL compositions as Read buffer sizes; a structured family (periods 1,2,3,4,59,60,61 x lengths 0..200 x every single / pair of write cuts x read sizes 1..70); a long family up to 400 KB incl. the 0x8000 tree rebuild. Oracle: decoded == input, both Close nil, compressed bytes identical across all partitions.",
    "Inputs beyond the enumerated alphabets/lengths are covered only by the structured and long families (fixed deterministic generators). Trusted: bytes.Equal, the harness' chunking drivers.",
    "bounded-exhaustive enumeration of inputs x write partitions x read compositions on the real codec", "seq", "DESIGN.md §5 C06")
add("C07", "model_checking",
    "Every enumerated input (all strings over five small alphabets up to length 14/9/7/5, 13 periods x lengths 0..400, long family) is compressed by the library and decoded by an independently written canonical LZHUF decoder (header CRC-16/XMODEM and size layout checked by an independent CRC), and compressed by the independent canonical encoder and decoded by the library with Close()==nil; with and without CRC header.",
    "The reference codec is written from the algorithm description (DESIGN.md App. E.1), position code derived from its length histogram, and is anchored at setup to the five golden .lzh files in both directions (byte-identical encoder output). A defect shared by the reference and the library that the goldens do not pin would be missed.",
    "bounded-exhaustive differential check against an independent reference codec anchored to golden vectors", "seq", "DESIGN.md §5 C07")
add("C08", "model_checking",
    "Every stream of a finite family is fed to the real Reader under several Read buffer sizes and source chunkings and read to a terminal result: 12 boundary header sizes x ALL bodies of <= 2 bytes (65 793) and 3-byte bodies over 16 values x {no CRC, good CRC, bad CRC}; for a corpus of valid streams every truncation, every single-bit flip, size/CRC header edits (stale and resealed), trailing data, and all prefix/suffix splices of the short streams. Oracle: terminates (deterministic 64x(0,nil) livelock rule), never more bytes than declared, no panic, Close()==nil only if size, canonical decoding and CRC all agree.",
    "Close verdict judged against the weakest reading (see DESIGN.md §5 C08). Streams outside the mutation families are not explored.",
    "bounded-exhaustive enumeration of malformed streams against an independent decoder/CRC oracle", "seq", "DESIGN.md §5 C08")

add("C18", "model_checking",
    "Every sequence of up to 4 (thorough 5) tokens over an 18-token alphabet (a, é, ÿ, LF, CRLF, lone CR, space, runs of 996..999 a, 997 a + é, 499 é, 998/997 a + space, runs of 65534/65536/70000 a) is set as body through the real SetBody / SetBodyWithCharset; judged on the serialised bytes: CRLF line ends, no line over 1000 bytes, CR/LF-stripped text identical to the Latin-1 input, Body header == stored length, Body() and the re-parsed message decode to the same text.",
    "Texts are compositions of the alphabet tokens; at most 1 (thorough 2) of the 64 KiB-class tokens per text. Trusted: the oracle's own Latin-1 conversion.",
    "bounded-exhaustive enumeration of token sequences against the statement's normalisation relation", "seq", "DESIGN.md §5 C18")

add("C09", "model_checking",
    "Deviation-bounded product over ten component alphabets of a message (To and Cc lists of 0..3 from six address forms, 9 subjects incl. Latin-1/75/76-byte/precedence/=?_ ones, 6 dates, 6 types, 9 bodies, attachment lists of 0..3 from 8 byte patterns, 6 naming schemes incl. Latin-1/255-byte/duplicate names, extra X- headers, 6 reader chunkings): every vector with <= 2 non-default components (thorough adds <= 3 with lists <= 2) is built through the public API, serialised, parsed through a chunked reader, compared (headers, body, attachments, accessors before and after) and re-serialised (byte equality).",
    "Excluded because the format leaves latitude: header values with surrounding blanks or CR/LF, text not representable in ISO-8859-1, literal RFC 2047 encoded-words as input.",
    "deviation-bounded exhaustive product of message components x reader chunkings; round-trip and canonicity oracle", "seq", "DESIGN.md §5 C09")
add("C19", "model_checking",
    "Parsing: 243 000 component tuples (6 schemes x 5 userinfo x 5 hosts x 45 digipeater paths x 5 targets x 6 query strings) composed with net/url's own escaping and parsed by the real ParseURL, every field compared; all 3.26e6 raw strings of length <= 6 over a 12-symbol alphabet for the never-panics clause. Registry/dispatch under concurrency: see level_note.",
    "The concurrent register/unregister/dial part is decided by the govs engine (controlled scheduler over the rewritten transport package); until that part reports registry_* keys in the evidence only the parsing and refusal clauses are decided by this check.",
    "bounded-exhaustive tuple and raw-string enumeration (parsing); schedule exploration of the registry via govs", "seq+govs", "DESIGN.md §5 C19")

add("C01", "model_checking",
    "Two real fbb.Sessions exchange over a deterministic duplex link (only the baton holder runs; every Read result is a function of stream content and the segmentation plan). Deviation-bounded product (<= 2 non-default components, thorough <= 3) over message-set shapes both ways (0..16 messages, 24 message variants incl. compressed sizes at exact multiples of 125, attachments, Latin-1, precedence, long titles, short/equal MIDs), 108 answer-policy patterns (all 3^n for n<=4), role, MOTD, GZIP_EXPERIMENT per side, batched/plain handlers, 13 segmentation plans, plus every single read-cut offset in both directions for base scenarios. Oracle: exactly-once byte-identical delivery, SetSent/SetDeferred per answer, stats, nil errors, Close, <=5 proposals per block, one framed transfer per accepted proposal on the wire.",
    "Handlers follow the MBoxHandler doc contract. Schedules: the two stations form a Kahn network over FIFO streams, so timing is reduced to segmentation, which is enumerated; the progress-reporter goroutines are inert without a StatusUpdater (C17 covers them).",
    "stateless exploration of two real Sessions on a deterministic link; deviation-bounded scenario product x segmentation plans", "link", "DESIGN.md §5 C01")
add("C05", "model_checking",
    "A real Session talks to an independently written strict B2F peer (validates SID, ;FW, handshake comment, prompt, proposal syntax and block checksum, <=5 per block, precedence-then-size order within and across blocks, one answer per proposal, SOH/STX/EOT framing, title 1..80 printable ASCII, offset, EOT checksum, CRC-16+size payload decoded by the reference LZHUF, FF/FQ rules, nothing after FQ). Deviation-bounded product (<=2, thorough partly <=3) over 18 components incl. every data block size 1..256 and cycling, every answer spelling, comment/;PM placement, MOTD, ;FW with hashes, six SIDs, CMS-style early FQ, duplicate MIDs, checksum case, role, library configuration and segmentation. Oracle: no complaint, nil error, handler callbacks as the protocol prescribes.",
    "The peer is written from docs/F6FBB-B2F + DESIGN.md App. E.2/H. Answer E excluded. Early FQ only after the Session said FF (as the CMS does).",
    "stateless exploration against an independent reference peer; deviation-bounded product over peer encoding choices", "link", "DESIGN.md §5 C05")

add("C04", "fault_enumeration",
    "For each of 3 (thorough 6) messages, one clean sender/receiver exchange locates the SOH..EOT range with the reference frame parser; then every offset x all 255 substitution values, every single deletion, insertions of 00/01/02/04/FF at every offset, checksum-compensating +d/-d pairs at distance 1..8 on data bytes, adjacent swaps and data-byte/EOT-checksum pairs are applied in transit and the full two-station exchange is re-run. Oracle: ProcessInbound never called for the damaged transfer, receiver's Exchange returns an error (no panic), sender never calls SetSent(mid,false). Alterations the independent frame parser + LZHUF/CRC reference accept as fully valid are excluded (counted).",
    "The quick tier uses a 6-value menu per byte for the multi-chunk message (full sweep in thorough). Damage is a single contiguous or two-point alteration; bursts are not enumerated.",
    "exhaustive fault enumeration (offset x alteration menu) on two real Sessions over the deterministic link with a man in the middle", "link", "DESIGN.md §5 C04")

add("C16", "model_checking",
    "A real slave Session is run against a scripted master issuing ;PQ for every decimal challenge of length 1..5 (thorough 6), the ten dddddddd challenges, the published vector and alphanumeric/64-character ones, x six passwords (ASCII, tilde, one character, 40 characters, Latin-1, with spaces); 12 auxiliary-address configurations (password known / unknown / callback error, up to three addresses) and nil / failing callbacks on a sub-lattice. Oracle: ;PR equals an independent implementation of the stated algorithm, ;FW items are addr|response iff the password is known, handshake fails without callback or on a callback error for the main address, no password bytes in anything the Session wrote. Digest classes hit are counted in the evidence.",
    "The reference is written from the property text and anchored to the published vector 23753528/FOOBAR -> 72768415. Challenges with surrounding whitespace are excluded (the line reader trims).",
    "bounded-exhaustive enumeration of challenges x passwords x aux configurations against an independent reference", "link", "DESIGN.md §5 C16")

add("C02", "model_checking",
    "Explicit-state search over mailbox states (per message: pending/sent/rejected at the sender, held or not at the receiver) for 10 (thorough 12) two-station scenarios: BFS to a fixpoint where each transition is one complete session of two real Sessions from that state under one fault plan - every cut offset k in each direction (coupled link failure; in-flight bytes delivered or lost; writes failing at once / never / after f calls; EOF or connection reset), a storage error at every inbound index, thorough: all cut pairs (kAB,kBA). Invariants on every transition: both calls return without a deadlock, SetSent(mid,false) only if the peer's handler completed ProcessInbound(mid), SetSent(mid,true) only if the peer holds it, delivered bytes identical, no duplicate delivery; from every reachable state one clean session reaches the goal (everything delivered exactly once and reported sent, deferred stays pending).",
    "In-memory reference handler implementing the MBoxHandler contract (the real DirHandler is covered by C10/C11 and, for sessions, by the dirhandler part when present). Bounded time = no deadlock under the link's scheduler (the Session sets no read deadline; a cut is visible to both ends as EOF/reset).",
    "explicit-state BFS over mailbox states; transitions = real sessions under exhaustively enumerated cut / storage-fault plans", "link", "DESIGN.md §5 C02")
add("C03", "fault_enumeration",
    "A real Session is run against scripted remote byte strings: 12 base transcripts recorded from the reference peer (both roles, with/without outbound pending, 0/1/2 inbound messages) x every offset x {truncate, delete, 14 substitutions, 12 insertions}; every numeric token x 9 boundary values; every line x {drop, duplicate, replace/insert 39 protocol fragments}; the same one layer down with outer layers re-sealed by the references: compressed payload bytes (frame + block checksum recomputed, also CRC resealed), LZHUF size field (12 values), and the decompressed message (every truncation, header byte edits, Body/File sizes -1/0/+-1/1e10/3e9/2^31-1, missing blank line / Date / Mid, 1e5-byte header line) recompressed and re-framed; all strings of length <= 3 over a 12-byte protocol alphabet at the protocol positions. Each case runs in an isolated worker under a watchdog and an address-space limit. Oracle: Exchange returns, no panic in any goroutine, no process death, allocation <= 64 MiB + 4096 x bytes received, connection closed.",
    "A CPU spin is believed only after a 20 s watchdog stall and three 30 s solo re-runs (cases normally take < 1 ms). After a confirmed hang in a mutation layer its remaining cases are skipped in restarted workers (reported as a cap, exhaustive=false).",
    "exhaustive fault enumeration (position x mutation menu at four protocol layers) with process isolation", "link", "DESIGN.md §5 C03")
add("C10", "model_checking",
    "Explicit-state BFS on the real mailbox.DirHandler (tmpfs), depth 8 (thorough 12): universe of five outbound messages (one recipient; two recipients; P2P-only; To+Cc; Cc-only), two inbound MIDs, seven forwarder lists (CMS, callsign, other, both, lower case, @winlink.org, SMTP), operations AddOut, Prepare, GetOutbound, SetSent, SetDeferred, ProcessInbound, GetInboundAnswer, SetUnread, Restart (normal / send-only). Each transition replays the shortest path on a fresh directory, applies one operation to the real handler and to a reference model in lockstep and compares the result and all four folder listings and counts. State key = model state + hash of the directory tree + reflective dump of the handler's in-memory fields.",
    "Driver respects the documented contract (session operations after Prepare; SetSent/SetDeferred for MIDs in the outbox; AddOut for new MIDs). Folders exist before the first operation.",
    "explicit-state BFS of the real implementation in lockstep with a reference model", "seq", "DESIGN.md §5 C10")

ids = [json.loads(l)["id"] for l in open("/verif/properties.jsonl")]
na = [dict(property_id=i, reason="check not built yet in this session (planned, see DESIGN.md §5); not claimed until its command exists and is green") for i in ids if i not in checks]
m = dict(version=1,
    setup_cmd="cd /verif && ./setup.sh",
    hooks=dict(guard="verif", enable="no source hooks in /repo: instrumentation is generated from the working tree at check time and applied with `go build -overlay <generated>.json -tags verif`", baseline_off_cmd=BASE, source_commits=[], add_only=True),
    engines=[
        dict(name="link", path="link/ sess/ ref/b2f/", serves_properties=["C01","C02","C03","C04","C05","C16"], kind_free_text="two-party deterministic link (baton scheduler, segmentation/cut plans, scripted remotes) driving real fbb.Sessions in isolated worker processes"),
        dict(name="seq", path="props/", serves_properties=["C06","C07","C08","C09","C10","C12","C16","C18","C19","C20"], kind_free_text="bounded-exhaustive enumeration / explicit-state BFS over the real sequential code"),
    ],
    checks=[checks[k] for k in sorted(checks)],
    not_applicable=na,
    notes="Every check rebuilds from /repo's working tree (go build; content-addressed cache). Known findings: known_findings.json. See DESIGN.md.")
json.dump(m, open("/verif/MANIFEST.json", "w"), indent=1)
print("claimed", sorted(checks), "na", len(na))
