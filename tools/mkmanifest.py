#!/usr/bin/env python3
# Generates /verif/MANIFEST.json from the table below (kept here so the manifest is always valid).
import json
BASE = "cd /repo && GOFLAGS=-mod=mod GOPROXY=off go test -vet=off -count=1 -timeout 25m ./..."
checks = {}
def add(pid, cat, text, note, tech, engine, ref):
    checks[pid] = dict(property_id=pid, quick_cmd=f"./check {pid} quick", thorough_cmd=f"./check {pid} thorough",
        evidence_file=f"evidence/{pid}.json", replay_cmd_template=f"./check {pid} --replay {{path}}", engine=engine,
        level_claimed=dict(category=cat, text=text, design_ref=ref), level_note=note, technique=tech)

add("C20", "model_checking",
    "Bounded-exhaustive enumeration of the real PosReport.Message over every whole degree/minute, their 1e-4-minute and 20-ulp neighbourhoods on both axes (about 2.2e6 distinct float64 values), a 400x400 pair grid, all 361 courses x {T,M} x all optional-field subsets; format, range, hemisphere and error bound judged on every one.",
    "Coordinates are formatted independently per axis; inputs outside the enumerated neighbourhoods are covered only by the grid. Trusted: Go fmt/regexp, the oracle's own float arithmetic (1e-9 minute slack).",
    "bounded-exhaustive input enumeration against a format/error oracle", "seq", "DESIGN.md §5 C20")

ids = [json.loads(l)["id"] for l in open("/verif/properties.jsonl")]
na = [dict(property_id=i, reason="check not built yet in this session (planned, see DESIGN.md §5); not claimed until its command exists and is green") for i in ids if i not in checks]
m = dict(version=1,
    setup_cmd="cd /verif && ./setup.sh",
    hooks=dict(guard="verif", enable="no source hooks in /repo: instrumentation is generated from the working tree at check time and applied with `go build -overlay <generated>.json -tags verif`", baseline_off_cmd=BASE, source_commits=[], add_only=True),
    engines=[
        dict(name="seq", path="props/", serves_properties=["C06","C07","C08","C09","C10","C12","C16","C18","C19","C20"], kind_free_text="bounded-exhaustive enumeration / explicit-state BFS over the real sequential code"),
    ],
    checks=[checks[k] for k in sorted(checks)],
    not_applicable=na,
    notes="Every check rebuilds from /repo's working tree (go build; content-addressed cache). Known findings: known_findings.json. See DESIGN.md.")
json.dump(m, open("/verif/MANIFEST.json", "w"), indent=1)
print("claimed", sorted(checks), "na", len(na))
