#!/usr/bin/env python3
# tools/mkround.py <round n> <prev prompt root> : writes /tmp/seed<n>/<id>/PROMPT.txt for a further round of
# seeded changes: same brief as the previous round, with the list of already-proposed changes
# rebuilt from everything kept under /verif/seeded for that property, and a scratch worktree per property.
import json, glob, os, re, subprocess, sys
n, prev = sys.argv[1], sys.argv[2]
ids = [json.loads(l)["id"] for l in open("/verif/properties.jsonl")]
for pid in ids:
    src = open(f"{prev}/{pid}/PROMPT.txt").read()
    prevtag = re.search(r"/tmp/wt/(R\d+)" + pid, src).group(1)
    prevroot = re.search(r"(/tmp/seed\d+)/" + pid, src).group(1)
    txt = src.replace(f"/tmp/wt/{prevtag}{pid}", f"/tmp/wt/R{n}{pid}").replace(prevroot, f"/tmp/seed{n}")
    a = txt.index("Other developers have ALREADY proposed")
    b = txt.index("Also do not use `git stash`")
    items = []
    for d in sorted(glob.glob(f"/verif/seeded/{pid}-*")):
        m = json.load(open(d + "/meta.json"))
        s = m.get("summary") or ""
        if isinstance(s, list): s = " ".join(s)
        items.append("- " + s.replace("\n", " ")[:420])
    block = ("Other developers have ALREADY proposed the following changes for this property; yours must differ from ALL of them in mechanism AND code site "
             "(do not produce variations of these; look for a part of the property's statement or quantifier that none of them touches):\n" + "\n".join(items) + "\n\n")
    txt = txt[:a] + block + txt[b:]
    os.makedirs(f"/tmp/seed{n}/{pid}", exist_ok=True)
    open(f"/tmp/seed{n}/{pid}/PROMPT.txt", "w").write(txt)
    pt = f"{prevroot}/{pid}/PROPERTY.txt"
    if os.path.exists(pt):
        open(f"/tmp/seed{n}/{pid}/PROPERTY.txt", "w").write(open(pt).read())
    wt = f"/tmp/wt/R{n}{pid}"
    if not os.path.exists(wt):
        subprocess.run(["git", "-C", "/repo", "worktree", "add", "--detach", "-q", wt, "HEAD"], check=True)
print("prompts and worktrees ready for round", n)
