#!/bin/sh
# tools/round.sh <round n> Cxx : confirm and test both round-n seeds of a property
N=$1; ID=$2
export WTPREFIX=/tmp/wt/R$N SEEDROOT=/tmp/seed$N SEEDTAG=r$N
for m in m1 m2; do
  [ -f $SEEDROOT/$ID/$m/patch.diff ] || { echo "$ID $m: no patch"; continue; }
  tools/confirmseed.py $ID $m 2>&1 | grep -a "CONFIRMED" | tail -1
  if git -C /repo apply --check $SEEDROOT/$ID/$m/patch.diff 2>/dev/null; then
    tools/seedtest.sh $SEEDROOT/$ID/$m/patch.diff $ID | grep -aE "signature|exit=|^C[0-9]+ quick" | sort | uniq -c | cut -c1-260
  else echo "$ID $m: patch does not apply to /repo HEAD"; fi
done
