#!/bin/sh
# tools/round2.sh Cxx : confirm and test both round-2 seeds of a property
ID=$1
export WTPREFIX=/tmp/wt/R2 SEEDROOT=/tmp/seed2 SEEDTAG=r2
for m in m1 m2; do
  [ -f /tmp/seed2/$ID/$m/patch.diff ] || { echo "$ID $m: no patch"; continue; }
  tools/confirmseed.py $ID $m
  if git -C /repo apply --check /tmp/seed2/$ID/$m/patch.diff 2>/dev/null; then
    tools/seedtest.sh /tmp/seed2/$ID/$m/patch.diff $ID | grep -aE "signature|exit=|^C[0-9]+ quick" | cut -c1-260
  else echo "$ID $m: patch does not apply to /repo HEAD"; fi
done
