#!/bin/sh
# tools/seedsweep.sh : runs every kept seeded change against the quick tier of its property's check.
# Meant for `vp run --with-repo -- sh tools/seedsweep.sh` (works on the run's own snapshots of /verif and /repo);
# prints one line per seed: <seed> exit=<rc> <first signatures>. Every line must say exit=1.
REPO=${VP_RUN_REPO:-/repo}
export VERIF_REPO=$REPO
[ "$REPO" = /repo ] && unset VERIF_REPO
sh ./setup.sh >/dev/null 2>&1
for d in seeded/*/; do
  s=$(basename $d); id=${s%%-*}
  git -C $REPO checkout -q -- . ; git -C $REPO clean -fdq
  if ! git -C $REPO apply "$(pwd)/$d/patch.diff" 2>/dev/null; then echo "$s PATCH-DOES-NOT-APPLY"; continue; fi
  ./check $id quick > /tmp/sweep.$$.log 2>&1; rc=$?
  echo "$s exit=$rc $(grep -a 'signature:' /tmp/sweep.$$.log | sort -u | head -3 | tr -s ' ' | tr '\n' ';' | cut -c1-200)"
  git -C $REPO checkout -q -- . ; git -C $REPO clean -fdq
done
rm -f /tmp/sweep.$$.log
echo "=== sweep done"
