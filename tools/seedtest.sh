#!/bin/sh
# tools/seedtest.sh <patch.diff> <property id> [tier]  — applies a seeded change to /repo, runs the check, reverts.
P=$1; ID=$2; TIER=${3:-quick}
cd /repo || exit 2
if [ -n "$(git status --porcelain)" ]; then echo "repo not clean"; exit 2; fi
git apply "$P" || { echo "patch does not apply"; exit 2; }
cd /verif
./check $ID $TIER > /tmp/seedtest.$$.log 2>&1; RC=$?
git -C /repo checkout -- . ; git -C /repo clean -fdq
grep -aE "^VIOLATION|^KNOWN|^INFRA|$ID $TIER:" /tmp/seedtest.$$.log | cut -c1-300 | head -12
grep -a -A2 "^VIOLATION" /tmp/seedtest.$$.log | grep -aE "signature|what" | cut -c1-300 | head -6
rm -f /tmp/seedtest.$$.log
echo "exit=$RC"
