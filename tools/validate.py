#!/usr/bin/env python3-vt
# validates MANIFEST.json and every evidence file against the schemas
import json, jsonschema, glob, sys
ok = True
m = json.load(open('/verif/MANIFEST.json'))
jsonschema.validate(m, json.load(open('/root/.vp/MANIFEST.schema.json')))
es = json.load(open('/root/.vp/EVIDENCE.schema.json'))
ids = [json.loads(l)['id'] for l in open('/verif/properties.jsonl')]
claimed = [c['property_id'] for c in m['checks']]
na = [c['property_id'] for c in m.get('not_applicable', [])]
for i in ids:
    if i not in claimed and i not in na:
        print('UNLISTED', i); ok = False
for c in m['checks']:
    try:
        e = json.load(open('/verif/' + c['evidence_file'].replace('/verif/', '')))
        jsonschema.validate(e, es)
        if e['level'] != c['level_claimed']['category']:
            print('LEVEL MISMATCH', c['property_id']); ok = False
    except Exception as ex:
        print('EVIDENCE', c['property_id'], str(ex)[:200]); ok = False
print('manifest ok' if ok else 'PROBLEMS')
sys.exit(0 if ok else 1)
