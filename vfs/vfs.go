// Package vfs is the file-system seam: thin wrappers over the real file system (package vos and
// vioutil mirror os and io/ioutil) that log every primitive with its cleaned absolute path and can
// kill the "process" before any mutating primitive or after any prefix of a write. See DESIGN §4.4.
package vfs

import (
	"os"
	"path/filepath"
	"sync"
)

type Event struct {
	Op    string `json:"op"`
	Path  string `json:"path"`
	Path2 string `json:"path2,omitempty"`
	Mut   bool   `json:"mutating"`
	Len   int    `json:"len,omitempty"`
}

// Crash is the sentinel raised at the crash point (equivalent to kill -9 of the process).
type Crash struct {
	Step   int
	Prefix int
}

var (
	mu      sync.Mutex
	log     []Event
	logOn   bool
	crashAt = -1
	prefix  int
	mutN    int
	tempN   int
	dead    bool // the simulated process has been killed: nothing it does any more reaches the file system
	open    = map[*os.File]bool{}
	// SigKill: instead of raising the sentinel, kill the process for real (cross-check mode).
	SigKill bool
)

// Begin resets the seam. crashStep < 0 disables crashing.
func Begin(crashStep, crashPrefix int, logging bool) {
	mu.Lock()
	defer mu.Unlock()
	log, logOn, crashAt, prefix, mutN, tempN, dead = nil, logging, crashStep, crashPrefix, 0, 0, false
}

// NextTemp numbers the temporary files created through the seam since Begin: their names are a
// function of the operation history, not of a random source, so that the simulated and the real
// kill of one crash plan leave identically named files whatever naming scheme the code uses.
func NextTemp() int {
	mu.Lock()
	defer mu.Unlock()
	tempN++
	return tempN
}

// End disables crashing, closes descriptors the dead "process" left open and returns the log.
func End() []Event {
	mu.Lock()
	defer mu.Unlock()
	for f := range open {
		f.Close()
	}
	open = map[*os.File]bool{}
	crashAt, dead = -1, false
	l := log
	log, logOn = nil, false
	return l
}

// MutCount returns the number of mutating primitives issued since Begin.
func MutCount() int { mu.Lock(); defer mu.Unlock(); return mutN }

func abs(p string) string {
	if p == "" {
		return p
	}
	a, err := filepath.Abs(p)
	if err != nil {
		return filepath.Clean(p)
	}
	return a
}

// Note logs a non-mutating primitive.
func Note(op, path string) {
	mu.Lock()
	if logOn {
		log = append(log, Event{Op: op, Path: abs(path)})
	}
	mu.Unlock()
}

// Mut announces a mutating primitive. If this is the crash point it returns (prefix, true): the
// caller performs the first prefix bytes of a write (nothing for other primitives) and then calls Die.
func Mut(op, path, path2 string, n int) (int, bool) {
	mu.Lock()
	defer mu.Unlock()
	if dead {
		// deferred functions of the killed "process" run while the sentinel unwinds its stack (a real
		// SIGKILL runs none): whatever they try is not performed, the unwinding goes on
		return 0, true
	}
	step := mutN
	mutN++
	if logOn {
		log = append(log, Event{Op: op, Path: abs(path), Path2: abs(path2), Mut: true, Len: n})
	}
	if step == crashAt {
		return prefix, true
	}
	return 0, false
}

func Die() {
	mu.Lock()
	s, p := crashAt, prefix
	dead = true
	mu.Unlock()
	if SigKill {
		pr, _ := os.FindProcess(os.Getpid())
		pr.Kill()
		select {}
	}
	panic(Crash{s, p})
}

// XDev is an environment answer: a rename whose two names lie in different directories fails with
// EXDEV, as if each folder were a mount point of its own.
var XDev bool

// ExitMsg is the message of the last Exit (diagnostics).
var ExitMsg string

// Exit ends the simulated process (log.Fatal, os.Exit): nothing more is performed, deferred functions
// included. Under a real kill plan the process really exits.
func Exit(code int, msg string) {
	mu.Lock()
	s, p := crashAt, prefix
	dead = true
	ExitMsg = msg
	mu.Unlock()
	if SigKill {
		os.Exit(code)
	}
	panic(Crash{s, p})
}

func Track(f *os.File)   { mu.Lock(); open[f] = true; mu.Unlock() }
func Untrack(f *os.File) { mu.Lock(); delete(open, f); mu.Unlock() }
