// Package vioutil mirrors io/ioutil through the seam.
package vioutil

import (
	"io"
	"os"
	"sort"

	"verif/vfs"
	"verif/vfs/vos"
)

var (
	Discard   = io.Discard
	ReadAll   = io.ReadAll
	NopCloser = io.NopCloser
)

func WriteFile(name string, data []byte, perm os.FileMode) error {
	return vos.WriteFile(name, data, perm)
}
func ReadFile(name string) ([]byte, error)            { return vos.ReadFile(name) }
func TempFile(dir, pattern string) (*vos.File, error) { return vos.CreateTemp(dir, pattern) }
func TempDir(dir, pattern string) (string, error)     { return vos.MkdirTemp(dir, pattern) }

func ReadDir(dirname string) ([]os.FileInfo, error) {
	vfs.Note("readdir", dirname)
	f, err := os.Open(dirname)
	if err != nil {
		return nil, err
	}
	list, err := f.Readdir(-1)
	f.Close()
	if err != nil {
		return nil, err
	}
	sort.Slice(list, func(i, j int) bool { return list[i].Name() < list[j].Name() })
	return list, nil
}
