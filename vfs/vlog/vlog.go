// Package vlog stands in for the standard log package inside packages rewritten for the file-system
// seam: output is discarded, and the Fatal functions end the (simulated) process through the seam
// instead of calling os.Exit - the end of a process is a crash point like any other.
package vlog

import (
	"fmt"

	"verif/vfs"
)

func Print(v ...any)                 {}
func Printf(format string, v ...any) {}
func Println(v ...any)               {}

func Fatal(v ...any)                 { vfs.Exit(1, fmt.Sprint(v...)) }
func Fatalf(format string, v ...any) { vfs.Exit(1, fmt.Sprintf(format, v...)) }
func Fatalln(v ...any)               { vfs.Exit(1, fmt.Sprintln(v...)) }

func Panic(v ...any)                 { panic(fmt.Sprint(v...)) }
func Panicf(format string, v ...any) { panic(fmt.Sprintf(format, v...)) }
func Panicln(v ...any)               { panic(fmt.Sprintln(v...)) }
