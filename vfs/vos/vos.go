// Package vos mirrors the part of package os that file-handling code uses, routed through the seam.
package vos

import (
	"fmt"
	"io/fs"
	"os"
	"path/filepath"
	"strings"
	"syscall"
	"time"

	"verif/vfs"
)

type (
	FileInfo  = os.FileInfo
	FileMode  = os.FileMode
	DirEntry  = os.DirEntry
	PathError = os.PathError
	LinkError = os.LinkError
	Signal    = os.Signal
	Process   = os.Process
)

const (
	O_RDONLY = os.O_RDONLY
	O_WRONLY = os.O_WRONLY
	O_RDWR   = os.O_RDWR
	O_APPEND = os.O_APPEND
	O_CREATE = os.O_CREATE
	O_EXCL   = os.O_EXCL
	O_SYNC   = os.O_SYNC
	O_TRUNC  = os.O_TRUNC

	ModeDir           = os.ModeDir
	ModePerm          = os.ModePerm
	ModeAppend        = os.ModeAppend
	ModeExclusive     = os.ModeExclusive
	ModeTemporary     = os.ModeTemporary
	ModeSymlink       = os.ModeSymlink
	ModeType          = os.ModeType
	PathSeparator     = os.PathSeparator
	PathListSeparator = os.PathListSeparator
	DevNull           = os.DevNull
)

var (
	ErrNotExist   = os.ErrNotExist
	ErrExist      = os.ErrExist
	ErrPermission = os.ErrPermission
	ErrClosed     = os.ErrClosed
	ErrInvalid    = os.ErrInvalid
	Stdin         = os.Stdin
	Stdout        = os.Stdout
	Stderr        = os.Stderr
	Args          = os.Args
	Interrupt     = os.Interrupt
	Kill          = os.Kill
)

var (
	IsNotExist    = os.IsNotExist
	IsExist       = os.IsExist
	IsPermission  = os.IsPermission
	IsTimeout     = os.IsTimeout
	Getenv        = os.Getenv
	LookupEnv     = os.LookupEnv
	Setenv        = os.Setenv
	Unsetenv      = os.Unsetenv
	Environ       = os.Environ
	Getpid        = os.Getpid
	Getuid        = os.Getuid
	Getwd         = os.Getwd
	Hostname      = os.Hostname
	TempDir       = os.TempDir
	UserHomeDir   = os.UserHomeDir
	UserCacheDir  = os.UserCacheDir
	UserConfigDir = os.UserConfigDir
	Expand        = os.Expand
	ExpandEnv     = os.ExpandEnv
	SameFile      = os.SameFile
	Executable    = os.Executable
	FindProcess   = os.FindProcess
)

// Exit ends the (simulated) process.
func Exit(code int) { vfs.Exit(code, "os.Exit") }

// File wraps *os.File.
type File struct {
	f    *os.File
	name string
}

func wrap(f *os.File, err error) (*File, error) {
	if err != nil {
		return nil, err
	}
	vfs.Track(f)
	return &File{f: f, name: f.Name()}, nil
}

func Open(name string) (*File, error) {
	vfs.Note("open-read", name)
	return wrap(os.Open(name))
}

func OpenFile(name string, flag int, perm FileMode) (*File, error) {
	if flag&(os.O_WRONLY|os.O_RDWR|os.O_CREATE|os.O_TRUNC|os.O_APPEND) != 0 {
		if _, crash := vfs.Mut("open-write", name, "", 0); crash {
			vfs.Die()
		}
	} else {
		vfs.Note("open-read", name)
	}
	return wrap(os.OpenFile(name, flag, perm))
}

func Create(name string) (*File, error) { return OpenFile(name, O_RDWR|O_CREATE|O_TRUNC, 0o666) }

func CreateTemp(dir, pattern string) (*File, error) {
	d := dir
	if d == "" {
		d = os.TempDir()
	}
	if _, crash := vfs.Mut("createtemp", filepath.Join(d, pattern), "", 0); crash {
		vfs.Die()
	}
	// os.CreateTemp with the random part replaced by the seam's counter (same O_EXCL retry loop)
	prefix, suffix := pattern, ""
	if i := strings.LastIndex(pattern, "*"); i >= 0 {
		prefix, suffix = pattern[:i], pattern[i+1:]
	}
	for try := 0; ; try++ {
		name := filepath.Join(d, prefix+fmt.Sprintf("%09d", 700000000+vfs.NextTemp())+suffix)
		f, err := os.OpenFile(name, os.O_RDWR|os.O_CREATE|os.O_EXCL, 0o600)
		if os.IsExist(err) && try < 10000 {
			continue
		}
		return wrap(f, err)
	}
}

func (f *File) Name() string                              { return f.f.Name() }
func (f *File) Read(p []byte) (int, error)                { return f.f.Read(p) }
func (f *File) ReadAt(p []byte, off int64) (int, error)   { return f.f.ReadAt(p, off) }
func (f *File) Seek(off int64, whence int) (int64, error) { return f.f.Seek(off, whence) }
func (f *File) Stat() (FileInfo, error)                   { return f.f.Stat() }
func (f *File) Fd() uintptr                               { return f.f.Fd() }
func (f *File) Readdir(n int) ([]FileInfo, error)         { return f.f.Readdir(n) }
func (f *File) ReadDir(n int) ([]DirEntry, error)         { return f.f.ReadDir(n) }
func (f *File) Readdirnames(n int) ([]string, error)      { return f.f.Readdirnames(n) }
func (f *File) SetDeadline(t time.Time) error             { return f.f.SetDeadline(t) }

func (f *File) Write(p []byte) (int, error) {
	if n, crash := vfs.Mut("write", f.f.Name(), "", len(p)); crash {
		if n > len(p) {
			n = len(p)
		}
		f.f.Write(p[:n])
		vfs.Die()
	}
	return f.f.Write(p)
}

func (f *File) WriteString(s string) (int, error) { return f.Write([]byte(s)) }

func (f *File) WriteAt(p []byte, off int64) (int, error) {
	if n, crash := vfs.Mut("write", f.f.Name(), "", len(p)); crash {
		if n > len(p) {
			n = len(p)
		}
		f.f.WriteAt(p[:n], off)
		vfs.Die()
	}
	return f.f.WriteAt(p, off)
}

func (f *File) Sync() error {
	if _, crash := vfs.Mut("fsync", f.f.Name(), "", 0); crash {
		vfs.Die()
	}
	return f.f.Sync()
}

func (f *File) Truncate(size int64) error {
	if _, crash := vfs.Mut("ftruncate", f.f.Name(), "", int(size)); crash {
		vfs.Die()
	}
	return f.f.Truncate(size)
}

func (f *File) Chmod(mode FileMode) error {
	if _, crash := vfs.Mut("fchmod", f.f.Name(), "", 0); crash {
		vfs.Die()
	}
	return f.f.Chmod(mode)
}

func (f *File) Close() error {
	if _, crash := vfs.Mut("close", f.f.Name(), "", 0); crash {
		vfs.Die()
	}
	vfs.Untrack(f.f)
	return f.f.Close()
}

func one(op, a, b string) {
	if _, crash := vfs.Mut(op, a, b, 0); crash {
		vfs.Die()
	}
}

func Rename(oldpath, newpath string) error {
	if vfs.XDev && filepath.Dir(filepath.Clean(oldpath)) != filepath.Dir(filepath.Clean(newpath)) {
		vfs.Note("rename-exdev", oldpath)
		return &os.LinkError{Op: "rename", Old: oldpath, New: newpath, Err: syscall.EXDEV}
	}
	one("rename", oldpath, newpath)
	return os.Rename(oldpath, newpath)
}
func Remove(name string) error    { one("remove", name, ""); return os.Remove(name) }
func RemoveAll(name string) error { one("removeall", name, ""); return os.RemoveAll(name) }
func Mkdir(name string, perm FileMode) error {
	one("mkdir", name, "")
	return os.Mkdir(name, perm)
}
func Chmod(name string, mode FileMode) error { one("chmod", name, ""); return os.Chmod(name, mode) }
func Chtimes(name string, a, m time.Time) error {
	one("chtimes", name, "")
	return os.Chtimes(name, a, m)
}
func Symlink(oldname, newname string) error {
	one("symlink", newname, oldname)
	return os.Symlink(oldname, newname)
}
func Link(oldname, newname string) error {
	one("link", newname, oldname)
	return os.Link(oldname, newname)
}
func Truncate(name string, size int64) error {
	one("truncate", name, "")
	return os.Truncate(name, size)
}

// MkdirAll issues one mkdir per missing component, as the standard library does.
func MkdirAll(path string, perm FileMode) error {
	path = filepath.Clean(path)
	if st, err := os.Stat(path); err == nil {
		if st.IsDir() {
			vfs.Note("stat", path)
			return nil
		}
		return &os.PathError{Op: "mkdir", Path: path, Err: fs.ErrExist}
	}
	if parent := filepath.Dir(path); parent != path {
		if err := MkdirAll(parent, perm); err != nil {
			return err
		}
	}
	one("mkdir", path, "")
	err := os.Mkdir(path, perm)
	if err != nil && os.IsExist(err) {
		return nil
	}
	return err
}

// WriteFile = open(O_WRONLY|O_CREATE|O_TRUNC) + write + close, as the standard library does.
func WriteFile(name string, data []byte, perm FileMode) error {
	f, err := OpenFile(name, O_WRONLY|O_CREATE|O_TRUNC, perm)
	if err != nil {
		return err
	}
	_, err = f.Write(data)
	if err1 := f.Close(); err1 != nil && err == nil {
		err = err1
	}
	return err
}

func ReadFile(name string) ([]byte, error)    { vfs.Note("readfile", name); return os.ReadFile(name) }
func ReadDir(name string) ([]DirEntry, error) { vfs.Note("readdir", name); return os.ReadDir(name) }
func Stat(name string) (FileInfo, error)      { vfs.Note("stat", name); return os.Stat(name) }
func Lstat(name string) (FileInfo, error)     { vfs.Note("lstat", name); return os.Lstat(name) }
func Readlink(name string) (string, error)    { return os.Readlink(name) }
func MkdirTemp(dir, pattern string) (string, error) {
	one("mkdirtemp", filepath.Join(dir, pattern), "")
	return os.MkdirTemp(dir, pattern)
}
