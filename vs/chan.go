package vs

import (
	"fmt"
	"runtime"
	"strings"
	"unsafe"
)

// ---- channels -----------------------------------------------------------------------------------

type item struct {
	v  any
	vc VC
}

type chanCore struct {
	id      int
	buf     []item
	cap     int
	closed  bool
	closeVC VC
	label   string
}

// Chan is the scheduler's channel; the rewriter turns `chan T` into *Chan[T].
type Chan[T any] struct{ c *chanCore }

func NewChan[T any](n ...int) *Chan[T] {
	c := &chanCore{}
	if len(n) > 0 {
		c.cap = n[0]
	}
	if s != nil {
		s.objSeq++
		c.id = s.objSeq
		s.chans = append(s.chans, c)
	}
	return &Chan[T]{c}
}

func (c *Chan[T]) core() *chanCore {
	if c == nil {
		return nil
	}
	return c.c
}

// Case is one select case.
type Case struct {
	c    *chanCore
	send bool
	val  any
	slot *slotCore
	fn   string // function performing a send (diagnostics of the close-vs-send oracle)
}

const chanCloseLoc = "chan.close-vs-send"

// callerFunc names the function skip frames up (package-qualified, line independent).
func callerFunc(skip int) string {
	pc, _, _, ok := runtime.Caller(skip)
	if !ok {
		return "?"
	}
	n := runtime.FuncForPC(pc).Name()
	if i := strings.LastIndex(n, "/"); i >= 0 {
		n = n[i+1:]
	}
	for strings.Contains(n, ".func") { // closures: name the enclosing function
		n = n[:strings.LastIndex(n, ".func")]
	}
	return n
}

type slotCore struct {
	v  any
	ok bool
}

// Slot receives the value of a select receive case.
type Slot[T any] struct {
	s  slotCore
	V  T
	Ok bool
}

func (c *Chan[T]) NewSlot() *Slot[T] { return &Slot[T]{} }

func (sl *Slot[T]) sync() {
	if sl.s.v != nil {
		sl.V = sl.s.v.(T)
	} else {
		var z T
		sl.V = z
	}
	sl.Ok = sl.s.ok
}

func (c *Chan[T]) RecvCase(sl *Slot[T]) Case { return Case{c: c.core(), slot: &sl.s} }
func (c *Chan[T]) SendCase(v T) Case {
	return Case{c: c.core(), send: true, val: v, fn: callerFunc(2)}
}

// Sync copies the received value out of the slot core (called by generated code after Select).
func (sl *Slot[T]) Sync() *Slot[T] { sl.sync(); return sl }

func (sc *sched) parkedPartner(t *thread, c *chanCore, wantSend bool) (*thread, int) {
	var best *thread
	bi := -1
	for _, u := range sc.threads {
		if u == t || u.done || u.op == nil || u.op.completed {
			continue
		}
		if u.op.kind != opSend && u.op.kind != opRecv && u.op.kind != opSelect {
			continue
		}
		for i := range u.op.cases {
			cs := &u.op.cases[i]
			if cs.c == c && cs.send == wantSend {
				if best == nil || u.op.parkSeq < best.op.parkSeq {
					best, bi = u, i
				}
				break
			}
		}
	}
	return best, bi
}

func (sc *sched) caseEnabled(t *thread, cs *Case) bool {
	c := cs.c
	if c == nil {
		return false
	}
	if cs.send {
		if c.closed {
			return true // will panic
		}
		if len(c.buf) < c.cap {
			return true
		}
		u, _ := sc.parkedPartner(t, c, false)
		return u != nil
	}
	if len(c.buf) > 0 || c.closed {
		return true
	}
	u, _ := sc.parkedPartner(t, c, true)
	return u != nil
}

func (sc *sched) performCase(t *thread, cs *Case) {
	c := cs.c
	if cs.send {
		if c.closed {
			panic("send on closed channel")
		}
		// a send that is not ordered with the close of its channel can meet it in another schedule
		// (Go's race detector reports the same pair): the send reads the channel's open state
		Access(unsafe.Pointer(c), chanCloseLoc, false, cs.fn)
		// release: publish the clock, then advance it (later events of t are not covered)
		if u, i := sc.parkedPartner(t, c, false); u != nil && len(c.buf) == 0 {
			// hand over directly to the oldest parked receiver
			ucs := &u.op.cases[i]
			ucs.slot.v, ucs.slot.ok = cs.val, true
			uv := u.vc.clone()
			u.vc.join(t.vc)
			if c.cap == 0 {
				t.vc.join(uv) // unbuffered: the receive also happens before the send completes
				u.vc.tick(u.id)
			}
			t.vc.tick(t.id)
			u.op.completed, u.op.chosen = true, i
			return
		}
		c.buf = append(c.buf, item{cs.val, t.vc.clone()})
		t.vc.tick(t.id)
		return
	}
	// receive
	if len(c.buf) > 0 {
		it := c.buf[0]
		c.buf = c.buf[1:]
		cs.slot.v, cs.slot.ok = it.v, true
		t.vc.join(it.vc)
		// a sender parked on the full buffer moves in
		if u, i := sc.parkedPartner(t, c, true); u != nil {
			ucs := &u.op.cases[i]
			sc.accessBy(u, unsafe.Pointer(c), chanCloseLoc, false, ucs.fn)
			c.buf = append(c.buf, item{ucs.val, u.vc.clone()})
			u.vc.tick(u.id)
			u.op.completed, u.op.chosen = true, i
		}
		return
	}
	if u, i := sc.parkedPartner(t, c, true); u != nil {
		ucs := &u.op.cases[i]
		sc.accessBy(u, unsafe.Pointer(c), chanCloseLoc, false, ucs.fn)
		cs.slot.v, cs.slot.ok = ucs.val, true
		tv := t.vc.clone()
		t.vc.join(u.vc)
		u.vc.join(tv)
		u.vc.tick(u.id)
		t.vc.tick(t.id)
		u.op.completed, u.op.chosen = true, i
		return
	}
	if c.closed {
		cs.slot.v, cs.slot.ok = nil, false
		t.vc.join(c.closeVC)
		return
	}
	panic("vs: receive performed on an empty open channel")
}

func describe(kind string, c *chanCore) string {
	if c == nil {
		return kind + " nil-chan"
	}
	return fmt.Sprintf("%s chan#%d", kind, c.id)
}

// Send is `c <- v`.
func (c *Chan[T]) Send(v T) {
	sc := enter()
	if sc == nil {
		panic("vs: channel operation outside an execution")
	}
	sc.yield(&op{kind: opSend, cases: []Case{{c: c.core(), send: true, val: v, fn: callerFunc(2)}}, desc: describe("send", c.core())})
}

// Recv is `<-c`.
func (c *Chan[T]) Recv() T {
	v, _ := c.Recv2()
	return v
}

// Recv2 is `v, ok := <-c`.
func (c *Chan[T]) Recv2() (T, bool) {
	sc := enter()
	if sc == nil {
		panic("vs: channel operation outside an execution")
	}
	var sl slotCore
	sc.yield(&op{kind: opRecv, cases: []Case{{c: c.core(), slot: &sl}}, desc: describe("recv", c.core())})
	if sl.v == nil {
		var z T
		return z, sl.ok
	}
	return sl.v.(T), sl.ok
}

// Close is close(c).
func (c *Chan[T]) Close() {
	sc := enter()
	cc := c.core()
	if cc == nil {
		panic("close of nil channel")
	}
	if cc.closed {
		panic("close of closed channel")
	}
	if sc == nil {
		cc.closed = true
		return
	}
	t := sc.cur
	Access(unsafe.Pointer(cc), chanCloseLoc, true, callerFunc(2))
	cc.closed = true
	cc.closeVC = t.vc.clone()
	t.vc.tick(t.id)
	// parked receivers are released by the enabledness rule (closed => enabled)
}

func (c *Chan[T]) Len() int {
	if c == nil {
		return 0
	}
	return len(c.c.buf)
}

func (c *Chan[T]) Cap() int {
	if c == nil {
		return 0
	}
	return c.c.cap
}

// All supports `for v := range c`.
func (c *Chan[T]) All() func(yield func(T) bool) {
	return func(yield func(T) bool) {
		for {
			v, ok := c.Recv2()
			if !ok {
				return
			}
			if !yield(v) {
				return
			}
		}
	}
}

// Select performs a select statement; returns the index of the case performed or -1 for default.
func Select(site string, hasDefault bool, cases ...Case) int {
	sc := enter()
	if sc == nil {
		panic("vs: select outside an execution")
	}
	o := &op{kind: opSelect, cases: cases, hasDefault: hasDefault, desc: "select@" + site, site: site}
	sc.yield(o)
	return o.chosen
}

// deliver is a non-blocking send performed by the scheduler itself (timers, tickers, context
// cancellation): reports whether the value was accepted.
func (sc *sched) deliver(c *chanCore, v any, vc VC) bool {
	if c.closed {
		return false
	}
	if u, i := sc.parkedPartner(nil, c, false); u != nil && len(c.buf) == 0 {
		ucs := &u.op.cases[i]
		ucs.slot.v, ucs.slot.ok = v, true
		u.vc.join(vc)
		u.op.completed, u.op.chosen = true, i
		return true
	}
	if len(c.buf) < c.cap {
		var cp VC
		if vc != nil {
			cp = vc.clone()
		}
		c.buf = append(c.buf, item{v, cp})
		return true
	}
	return false
}

func (sc *sched) closeByScheduler(c *chanCore, vc VC) {
	if !c.closed {
		c.closed = true
		if vc != nil {
			c.closeVC = vc.clone()
		}
	}
}

// TimerSend lets shim packages (vtime, vcontext) deliver from a timer callback.
func TimerSend[T any](c *Chan[T], v T) bool { return s.deliver(c.c, v, s.fireVC) }

// SchedulerClose closes c from a timer callback or from the running thread without a scheduling point.
func SchedulerClose[T any](c *Chan[T]) {
	if s == nil {
		c.c.closed = true
		return
	}
	var vc VC
	if s.inFire {
		vc = s.fireVC
	} else if s.cur != nil {
		vc = s.cur.vc.clone()
		s.cur.vc.tick(s.cur.id)
	}
	s.closeByScheduler(c.c, vc)
}

// AddTimer registers a virtual timer; returns a stop function (true if it was still pending).
func AddTimer(d interface{ Nanoseconds() int64 }, label string, fire func()) (stop func() bool) {
	if s == nil {
		panic("vs.AddTimer outside an execution")
	}
	tm := s.addTimer(durationOf(d), label, fire)
	return func() bool {
		if tm.dead {
			return false
		}
		tm.dead = true
		if s != nil {
			s.compactTimers()
		}
		return true
	}
}
