package vs

import (
	"fmt"
	"time"
)

const (
	DelayBounded = iota // every departure from the default costs 1
	Chess               // only preemptions (switching away from a still-enabled thread), timer-first and environment deviations cost 1
)

type Explorer struct {
	Cfg     Config
	Harness func()
	Bound   int
	Mode    int
	// Check is the oracle, called once per execution with its choice sequence.
	Check    func(choices []int, r *Result)
	MaxExec  int       // 0 = unlimited
	Deadline time.Time // zero = none
	// FromMark, if set, restricts deviations to choice points made after the harness called
	// vs.Mark(FromMark): the part before it (set-up) runs on the default schedule only. The bound
	// statement of such an exploration is "every schedule with at most Bound deviations, all of
	// them after the mark".
	FromMark string
	// stats
	Execs       int
	Steps       int64
	States      map[uint64]struct{}
	Outcomes    map[string]int
	Capped      bool
	Replayed    int
	MaxEnabled  int
	MaxPoints   int
	Interleaved int  // executions in which at least two threads were enabled at once
	Exhausted   bool // RunIterative: a bound was reached at which no new execution exists
	onlyCost    int
	lastNew     int
	iter        bool
}

func (e *Explorer) cost(p *Point, alt int) int {
	if alt == 0 {
		return 0
	}
	if e.Mode == DelayBounded {
		return 1
	}
	switch p.Kind {
	case 'T':
		if p.Running || p.TimerAlt && alt == p.N-1 {
			return 1
		}
		return 0
	case 'S', 'C':
		return 0
	}
	return 1
}

type frame struct {
	prefix []int
	spent  int
}

// RunIterative explores bound 0, 1, ..., maxBound in turn (iterative context bounding): the
// oracle sees every execution exactly once, in the iteration equal to its cost. Returns the highest
// bound that was completed before a cap or deadline hit (-1 if none).
func (e *Explorer) RunIterative(maxBound int) int {
	completed := -1
	e.iter = true
	for b := 0; b <= maxBound; b++ {
		e.Bound = b
		e.onlyCost = b
		e.Capped = false
		e.Run()
		if e.Capped {
			break
		}
		completed = b
		if e.lastNew == 0 && b > 0 {
			break // no execution needs b deviations: the space is exhausted
		}
	}
	e.onlyCost = -1
	e.Exhausted = !e.Capped && e.lastNew == 0
	return completed
}

// Run explores every execution within the bound (depth-first, replay based).
func (e *Explorer) Run() {
	e.lastNew = 0
	if e.States == nil {
		e.States = map[uint64]struct{}{}
		e.Outcomes = map[string]int{}
	}
	stack := []frame{{nil, 0}}
	for len(stack) > 0 {
		f := stack[len(stack)-1]
		stack = stack[:len(stack)-1]
		if e.MaxExec > 0 && e.Execs >= e.MaxExec || !e.Deadline.IsZero() && time.Now().After(e.Deadline) {
			e.Capped = true
			return
		}
		cfg := e.Cfg
		cfg.Choices = f.prefix
		r := Run(cfg, e.Harness)
		fresh := e.onlyCost < 0 || f.spent == e.onlyCost || !e.iter
		if fresh {
			e.lastNew++
		}
		e.Execs++
		e.Steps += int64(r.Steps)
		for _, h := range r.StateSig {
			e.States[h] = struct{}{}
		}
		if r.MaxEnabled > e.MaxEnabled {
			e.MaxEnabled = r.MaxEnabled
		}
		if r.MaxEnabled >= 2 {
			e.Interleaved++
		}
		if len(r.Points) > e.MaxPoints {
			e.MaxPoints = len(r.Points)
		}
		taken := make([]int, len(r.Points))
		for i := range r.Points {
			taken[i] = r.Points[i].Taken
		}
		for i, v := range f.prefix {
			if i >= len(taken) || taken[i] != v {
				panic(fmt.Sprintf("NONDETERMINISM: replay of prefix %v diverged at %d (recorded %v)", f.prefix, i, taken))
			}
		}
		if fresh {
			e.Outcomes[r.Outcome]++
			if e.Check != nil {
				e.Check(taken, &r)
			}
		}
		// determinism: replay a fixed subset completely and compare
		if e.Execs == 1 || e.Execs%97 == 0 {
			cfg.Choices = taken
			r2 := Run(cfg, e.Harness)
			if r2.Outcome != r.Outcome || len(r2.Points) != len(r.Points) || fmt.Sprint(r2.Log) != fmt.Sprint(r.Log) {
				panic(fmt.Sprintf("NONDETERMINISM: replaying %v gave outcome %s/%d points, first run %s/%d points\nlog1=%v\nlog2=%v", taken, r2.Outcome, len(r2.Points), r.Outcome, len(r.Points), r.Log, r2.Log))
			}
			e.Replayed++
		}
		// an execution that ran into the step or time horizon (a spinning or endlessly polling thread:
		// every check reports it) has tens of thousands of choice points; deviating from each of them
		// is neither feasible nor needed
		if r.Outcome == "horizon" {
			continue
		}
		// children, pushed in reverse so that the simplest alternative is explored first
		first := len(f.prefix)
		if e.FromMark != "" {
			m, ok := r.Marks[e.FromMark]
			if !ok {
				m = len(r.Points) // never reached: nothing to deviate from
			}
			if m > first {
				first = m
			}
		}
		for i := len(r.Points) - 1; i >= first; i-- {
			p := &r.Points[i]
			for alt := p.N - 1; alt >= 1; alt-- {
				c := e.cost(p, alt)
				if f.spent+c > e.Bound {
					continue
				}
				np := make([]int, i+1)
				copy(np, taken[:i])
				np[i] = alt
				stack = append(stack, frame{np, f.spent + c})
			}
		}
	}
}
