package vs

import "time"

// ---- vector clocks and the happens-before race oracle ----------------------------------------

type VC map[int]int

func (v VC) clone() VC {
	o := make(VC, len(v))
	for k, x := range v {
		o[k] = x
	}
	return o
}

func (v VC) tick(id int) { v[id]++ }

func (v VC) join(o VC) {
	for k, x := range o {
		if x > v[k] {
			v[k] = x
		}
	}
}

// leq reports v <= o (v happens before or equals o).
func (v VC) leq(o VC) bool {
	for k, x := range v {
		if x > o[k] {
			return false
		}
	}
	return true
}

type accessRec struct {
	thread int
	name   string
	vc     VC
	site   string
}

type accessState struct {
	lastWrite *accessRec
	reads     []accessRec
}

// Access is inserted by the rewriter before reads/writes of package-level variables and of locals
// captured by a go-closure. Two accesses to one location from different threads, at least one a
// write, unordered by happens-before, are a data race.
func Access(loc string, write bool) {
	sc := s
	if sc == nil || sc.aborting || sc.cur == nil {
		return
	}
	t := sc.cur
	t.vc.tick(t.id)
	st := sc.access[loc]
	if st == nil {
		st = &accessState{}
		sc.access[loc] = st
	}
	site := callerSite(2)
	rec := accessRec{t.id, t.name, t.vc.clone(), site}
	report := func(o *accessRec, oWrite bool) {
		key := loc + "|" + o.site + "|" + site
		if sc.raceSeen[key] {
			return
		}
		sc.raceSeen[key] = true
		sc.races = append(sc.races, Race{Loc: loc, A: o.name, B: t.name, AWrite: oWrite, BWrite: write, ASite: o.site, BSite: site})
	}
	if w := st.lastWrite; w != nil && w.thread != t.id && !w.vc.leq(t.vc) {
		report(w, true)
	}
	if write {
		for i := range st.reads {
			r := &st.reads[i]
			if r.thread != t.id && !r.vc.leq(t.vc) {
				report(r, false)
			}
		}
		st.lastWrite = &rec
		st.reads = st.reads[:0]
	} else {
		// keep one read record per thread
		for i := range st.reads {
			if st.reads[i].thread == t.id {
				st.reads[i] = rec
				return
			}
		}
		st.reads = append(st.reads, rec)
	}
}

func durationOf(d interface{ Nanoseconds() int64 }) time.Duration {
	return time.Duration(d.Nanoseconds())
}

// ---- sync objects used by the shim packages ---------------------------------------------------

// SyncObj carries the happens-before clock of a mutex / atomic / once.
type SyncObj struct{ vc VC }

// Acquire joins the object's clock into the current thread (after a lock / load).
func (o *SyncObj) Acquire() {
	if s != nil && s.cur != nil && o.vc != nil {
		s.cur.vc.join(o.vc)
	}
}

// Release publishes the current thread's clock into the object (before an unlock / store).
func (o *SyncObj) Release() {
	if s != nil && s.cur != nil {
		s.cur.vc.tick(s.cur.id)
		if o.vc == nil {
			o.vc = VC{}
		}
		o.vc.join(s.cur.vc)
	}
}

// Point is a scheduling point that is always enabled (used before atomics, unlocks are silent).
func SchedPoint(desc string) {
	if sc := enter(); sc != nil {
		sc.yield(&op{kind: opYield, desc: desc})
	}
}

// AV records accesses ("loc:r" / "loc:w") made while evaluating v and returns v (used by the
// rewriter for loop conditions, which are re-evaluated on every iteration).
func AV[T any](v T, accs ...string) T {
	for _, a := range accs {
		if n := len(a); n > 2 {
			Access(a[:n-2], a[n-1] == 'w')
		}
	}
	return v
}
