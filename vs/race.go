package vs

import (
	"strings"
	"time"
	"unsafe"
)

// ---- vector clocks and the happens-before race oracle ----------------------------------------

type VC map[int]int

func (v VC) clone() VC {
	o := make(VC, len(v))
	for k, x := range v {
		o[k] = x
	}
	return o
}

func (v VC) tick(id int) { v[id]++ }

func (v VC) join(o VC) {
	for k, x := range o {
		if x > v[k] {
			v[k] = x
		}
	}
}

// leq reports v <= o (v happens before or equals o).
func (v VC) leq(o VC) bool {
	for k, x := range v {
		if x > o[k] {
			return false
		}
	}
	return true
}

type accessRec struct {
	thread int
	clock  int // the thread's own clock component at the access (epoch)
	site   string
	name   string
}

type accessKey struct {
	p   unsafe.Pointer
	obj bool
}

// MapPtr is the identity of the map object held by the map variable m.
func MapPtr[M any](m *M) unsafe.Pointer { return *(*unsafe.Pointer)(unsafe.Pointer(m)) }

// Acc is one access recorded by AV.
type Acc struct {
	p unsafe.Pointer
	s string
}

func A(p unsafe.Pointer, s string) Acc { return Acc{p, s} }

// P evaluates an address expression that dereferences pointers on the way; nil if one of them is
// nil (the instrumentation must not introduce a nil dereference of its own).
func P(f func() unsafe.Pointer) (p unsafe.Pointer) {
	defer func() {
		if recover() != nil {
			p = nil
		}
	}()
	return f()
}

type accessState struct {
	lastWrite accessRec
	hasWrite  bool
	reads     []accessRec
}

// Access is inserted by the rewriter before reads/writes of package-level variables and of locals
// captured by a go-closure. Two accesses to one location from different threads, at least one a
// write, unordered by happens-before, are a data race. An earlier access (u, c) happens before the
// current thread's position iff c <= vc[u] (epoch test; clocks advance at every release).
func Access(ptr unsafe.Pointer, loc string, write bool, site string) {
	sc := s
	if sc == nil || sc.aborting || sc.cur == nil || ptr == nil {
		return
	}
	sc.accessBy(sc.cur, ptr, loc, write, site)
}

// accessBy records an access made by (or, for a parked channel operation completed by its partner,
// on behalf of) thread t.
func (sc *sched) accessBy(t *thread, ptr unsafe.Pointer, loc string, write bool, site string) {
	key := accessKey{ptr, strings.HasSuffix(loc, "#obj")}
	st := sc.access[key]
	if st == nil {
		st = &accessState{}
		sc.access[key] = st
	}
	rec := accessRec{t.id, t.vc[t.id], site, t.name}
	report := func(o *accessRec, oWrite bool) {
		a, b := o.site, site
		key := loc + "|" + a + "|" + b
		if sc.raceSeen[key] {
			return
		}
		sc.raceSeen[key] = true
		sc.races = append(sc.races, Race{Loc: loc, A: o.name, B: t.name, AWrite: oWrite, BWrite: write, ASite: a, BSite: b})
	}
	if w := &st.lastWrite; st.hasWrite && w.thread != t.id && w.clock > t.vc[w.thread] {
		report(w, true)
	}
	if write {
		for i := range st.reads {
			r := &st.reads[i]
			if r.thread != t.id && r.clock > t.vc[r.thread] {
				report(r, false)
			}
		}
		st.lastWrite, st.hasWrite = rec, true
		st.reads = st.reads[:0]
	} else {
		for i := range st.reads {
			if st.reads[i].thread == t.id {
				st.reads[i] = rec
				return
			}
		}
		st.reads = append(st.reads, rec)
	}
}

func durationOf(d interface{ Nanoseconds() int64 }) time.Duration {
	return time.Duration(d.Nanoseconds())
}

// ---- sync objects used by the shim packages ---------------------------------------------------

// SyncObj carries the happens-before clock of a mutex / atomic / once.
type SyncObj struct{ vc VC }

// Acquire joins the object's clock into the current thread (after a lock / load).
func (o *SyncObj) Acquire() {
	if s != nil && s.cur != nil && o.vc != nil {
		s.cur.vc.join(o.vc)
	}
}

// Release publishes the current thread's clock into the object (before an unlock / store).
func (o *SyncObj) Release() {
	if s != nil && s.cur != nil {
		if o.vc == nil {
			o.vc = VC{}
		}
		o.vc.join(s.cur.vc)
		s.cur.vc.tick(s.cur.id)
	}
}

// Point is a scheduling point that is always enabled (used before atomics, unlocks are silent).
func SchedPoint(desc string) {
	if sc := enter(); sc != nil {
		sc.yield(&op{kind: opYield, desc: desc})
	}
}

// AV records accesses ("loc:r" / "loc:w") made while evaluating v and returns v (used by the
// rewriter for loop conditions, which are re-evaluated on every iteration).
func AV[T any](v T, accs ...Acc) T {
	for _, ac := range accs {
		a := ac.s
		if n := len(a); n > 2 {
			body, site := a[:n-2], ""
			if i := strings.LastIndex(body, "@"); i >= 0 {
				body, site = body[:i], body[i+1:]
			}
			Access(ac.p, body, a[n-1] == 'w', site)
		}
	}
	return v
}
