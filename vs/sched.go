// Package vs is the controlled scheduler ("govs" runtime): real goroutines, exactly one of which
// holds the baton; channels, mutexes, timers, contexts and the network are implemented here so
// that every goroutine switch, select choice, timer expiry and I/O completion is a decision of the
// explorer. See DESIGN.md §4.1 and Appendix A.
package vs

import (
	"fmt"
	"os"
	"runtime"
	"runtime/debug"
	"sort"
	"strings"
	"sync"
	"time"
)

// ---- public types -------------------------------------------------------------------------------

type Config struct {
	Choices  []int         // replay prefix; past its end every choice is 0 (the default)
	Horizon  time.Duration // virtual-time horizon (0 = 1h)
	MaxSteps int           // visible-operation horizon (0 = 200000)
	// NoTimerFirst disables the "timer lands first" alternative at thread choice points.
	NoTimerFirst bool
}

type Point struct {
	Kind     byte // 'T' thread, 'S' select case, 'C' clock (equal deadlines), 'E' env (Choose)
	N        int
	Taken    int
	Running  bool // 'T' only: the running thread was still enabled (alternative 0 = keep running)
	TimerAlt bool // 'T' only: the last alternative is "the earliest timer lands first"
	Site     string
}

type Race struct {
	Loc          string
	A, B         string // thread names
	AWrite       bool
	BWrite       bool
	ASite, BSite string
}

type Blocked struct {
	Thread string
	On     string
}

type PanicInfo struct {
	Value  string
	Thread string
	Stack  string
	Site   string
}

type Result struct {
	Points        []Point
	Outcome       string // done | deadlock | horizon | panic
	Panic         *PanicInfo
	Races         []Race
	Blocked       []Blocked
	Steps         int
	Now           time.Duration
	Log           []string
	StateSig      []uint64       // global state hash after every visible step
	MaxEnabled    int            // max number of simultaneously enabled threads seen
	DefaultsTaken map[string]int // select sites that took their default branch
	Marks         map[string]int // harness marks: number of choice points made when vs.Mark(name) was first called
}

// TimerFirstTaken reports whether the execution contains a "timer lands first" deviation: virtual time
// was advanced while some thread could still run, i.e. that thread was delayed by an arbitrary
// amount. In such executions "returned at virtual time t" says nothing about how long the call was
// blocked, so latency oracles must not be applied to them (everything else is judged as usual).
func (r *Result) TimerFirstTaken() bool {
	for _, p := range r.Points {
		if p.Kind == 'T' && p.TimerAlt && p.Taken == p.N-1 {
			return true
		}
	}
	return false
}

// ---- scheduler ----------------------------------------------------------------------------------

type thread struct {
	id       int
	name     string
	wake     chan struct{}
	op       *op
	done     bool
	required bool
	vc       VC
	hist     uint64
	started  bool
}

const (
	opYield = iota
	opSend
	opRecv
	opSelect
	opCond // enabled by a predicate
)

type op struct {
	kind       int
	cases      []Case
	hasDefault bool
	pred       func() bool
	desc       string
	quiesce    bool // a WaitQuiescent wait
	site       string
	parkSeq    int
	completed  bool
	chosen     int
	perform    func()
}

type timer struct {
	when  time.Duration
	seq   int
	fire  func()
	vc    VC
	dead  bool
	label string
}

type sched struct {
	marks    map[string]int
	threads  []*thread
	cur      *thread
	prefix   []int
	pos      int
	points   []Point
	now      time.Duration
	timers   []*timer
	seq      int
	steps    int
	cfg      Config
	aborting bool
	outcome  string
	panicked *PanicInfo
	races    []Race
	raceSeen map[string]bool
	blocked  []Blocked
	log      []string
	wg       sync.WaitGroup
	finished chan struct{}
	access   map[accessKey]*accessState
	sigs     []uint64
	maxEn    int
	defaults map[string]int
	objSeq   int
	inFire   bool
	fireVC   VC
	chans    []*chanCore
}

var s *sched

var resetHooks []func()

// RegisterReset registers a function run at the start of every execution (shim packages clear
// their per-execution state here).
func RegisterReset(f func()) { resetHooks = append(resetHooks, f) }

var epoch = time.Date(2020, 1, 1, 0, 0, 0, 0, time.UTC)

// Active reports whether an execution is in progress (rewritten code may also run outside one).
func Active() bool { return s != nil && !s.aborting }

type abortSignal struct{}

// Run executes main under the scheduler and returns when the execution has ended and every
// goroutine it created has exited.
// traceOn (VS_TRACE=1) prints every scheduling decision to stderr (for reading replays).
var traceOn = os.Getenv("VS_TRACE") != ""

// RunSeq numbers the executions of this process (shim objects that outlive an execution, such as a
// package-level sync.Pool, use it to start every execution empty).
func RunSeq() int { return runSeq }

var runSeq int

func Run(cfg Config, main func()) Result {
	if s != nil {
		panic("vs.Run: nested execution")
	}
	runSeq++
	sc := &sched{prefix: cfg.Choices, cfg: cfg, finished: make(chan struct{}), access: map[accessKey]*accessState{}, raceSeen: map[string]bool{}, defaults: map[string]int{}}
	if sc.cfg.Horizon == 0 {
		sc.cfg.Horizon = time.Hour
	}
	if sc.cfg.MaxSteps == 0 {
		sc.cfg.MaxSteps = 200000
	}
	s = sc
	for _, f := range resetHooks {
		f()
	}
	t := sc.newThread("main", true)
	sc.cur = t
	t.started = true
	sc.wg.Add(1)
	go sc.root(t, main, false)
	<-sc.finished
	sc.wg.Wait()
	s = nil
	return Result{Points: sc.points, Outcome: sc.outcome, Panic: sc.panicked, Races: sc.races, Blocked: sc.blocked, Steps: sc.steps, Now: sc.now, Log: sc.log, StateSig: sc.sigs, MaxEnabled: sc.maxEn, DefaultsTaken: sc.defaults, Marks: sc.marks}
}

func (sc *sched) newThread(name string, required bool) *thread {
	t := &thread{id: len(sc.threads), name: name, wake: make(chan struct{}, 1), required: required, vc: VC{}}
	t.vc[t.id] = 1 // own clock starts at 1: events nobody has synchronised with are > every other view (0)
	sc.threads = append(sc.threads, t)
	return t
}

func (sc *sched) root(t *thread, f func(), park bool) {
	defer sc.wg.Done()
	defer func() {
		if e := recover(); e != nil {
			if _, ok := e.(abortSignal); ok {
				return
			}
			if sc.aborting {
				return
			}
			st := string(debug.Stack())
			sc.panicked = &PanicInfo{Value: fmt.Sprint(e), Thread: t.name, Stack: st, Site: siteFromStack(st)}
			sc.end("panic")
			return
		}
	}()
	if park {
		<-t.wake
		if sc.aborting {
			return
		}
	}
	f()
	if sc.aborting {
		return
	}
	// thread exit
	t.done = true
	t.op = nil
	sc.dispatch(t)
}

// end finishes the execution: wakes every parked thread into Goexit and signals Run.
func (sc *sched) end(outcome string) {
	if sc.aborting {
		return
	}
	sc.aborting = true
	sc.outcome = outcome
	if traceOn && outcome == "deadlock" { // VS_TRACE=1: where every goroutine stands
		buf := make([]byte, 1<<20)
		fmt.Printf("vs deadlock, goroutine stacks:\n%s\n", buf[:runtime.Stack(buf, true)])
	}
	if outcome == "deadlock" || outcome == "horizon" {
		for _, t := range sc.threads {
			if !t.done {
				d := "runnable"
				if t.op != nil {
					d = t.op.desc
				}
				sc.blocked = append(sc.blocked, Blocked{t.name, d})
			}
		}
	}
	me := sc.cur
	for _, t := range sc.threads {
		if t != me && !t.done {
			select {
			case t.wake <- struct{}{}:
			default:
			}
		}
	}
	close(sc.finished)
}

// enter must be called at the start of every vs operation invoked from user code.
func enter() *sched {
	sc := s
	if sc == nil {
		return nil
	}
	if sc.aborting {
		runtime.Goexit()
	}
	return sc
}

func (sc *sched) requiredLeft() bool {
	for _, t := range sc.threads {
		if t.required && !t.done {
			return true
		}
	}
	return false
}

func (sc *sched) opEnabled(t *thread) bool {
	o := t.op
	if o == nil || o.completed {
		return true
	}
	switch o.kind {
	case opYield:
		return true
	case opCond:
		return o.pred()
	case opSend, opRecv, opSelect:
		if o.hasDefault {
			return true
		}
		for i := range o.cases {
			if sc.caseEnabled(t, &o.cases[i]) {
				return true
			}
		}
	}
	return false
}

func (sc *sched) choose(kind byte, n int, running bool, site string) int {
	if n <= 1 {
		return 0
	}
	v := 0
	if sc.pos < len(sc.prefix) {
		v = sc.prefix[sc.pos]
		if v >= n {
			panic(fmt.Sprintf("NONDETERMINISM: replayed choice %d at point %d but only %d alternatives (%c %s)", v, sc.pos, n, kind, site))
		}
	}
	sc.pos++
	sc.points = append(sc.points, Point{Kind: kind, N: n, Taken: v, Running: running, Site: site})
	return v
}

// dispatch is called by thread me after it posted its op (or finished). It transfers the baton
// until me is chosen again; on return me's op has been performed.
func (sc *sched) dispatch(me *thread) {
	for {
		if sc.aborting {
			if me.done {
				return
			}
			runtime.Goexit()
		}
		sc.steps++
		if sc.steps > sc.cfg.MaxSteps || sc.now > sc.cfg.Horizon {
			sc.end("horizon")
			if me.done {
				return
			}
			runtime.Goexit()
		}
		if !sc.requiredLeft() {
			sc.end("done")
			if me.done {
				return
			}
			runtime.Goexit()
		}
		var en []*thread
		if !me.done && sc.opEnabled(me) {
			en = append(en, me)
		}
		for _, t := range sc.threads {
			if t != me && !t.done && sc.opEnabled(t) {
				en = append(en, t)
			}
		}
		if len(en) > sc.maxEn {
			sc.maxEn = len(en)
		}
		timerAlt := 0
		if sc.nextTimer() != nil && !sc.cfg.NoTimerFirst {
			timerAlt = 1
		}
		if len(en) == 0 {
			if sc.nextTimer() == nil {
				sc.end("deadlock")
				if me.done {
					return
				}
				runtime.Goexit()
			}
			sc.fireNext()
			continue
		}
		running := len(en) > 0 && en[0] == me && !me.done
		idx := sc.choose('T', len(en)+timerAlt, running, "")
		if timerAlt == 1 && len(en)+timerAlt > 1 {
			sc.points[len(sc.points)-1].TimerAlt = true
		}
		if idx == len(en) { // the earliest timer lands first
			sc.fireNext()
			continue
		}
		next := en[idx]
		if traceOn {
			d, site := "", ""
			if next.op != nil {
				d, site = next.op.desc, next.op.site
			}
			var names []string
			for _, t := range en {
				names = append(names, t.name)
			}
			fmt.Fprintf(os.Stderr, "vs %8v step %4d point %3d: %-28s %s %s   enabled %v\n", sc.now, sc.steps, len(sc.points), next.name, d, site, names)
		}
		sc.sig()
		if next == me {
			sc.performOwn(me)
			return
		}
		sc.cur = next
		next.wake <- struct{}{}
		if me.done {
			return
		}
		<-me.wake
		if sc.aborting {
			runtime.Goexit()
		}
		// me was chosen by another dispatcher: perform and go on
		sc.performOwn(me)
		return
	}
}

func (sc *sched) performOwn(t *thread) {
	o := t.op
	if o == nil {
		return
	}
	if !o.completed {
		sc.perform(t, o)
	}
	t.hist = t.hist*1099511628211 ^ hashStr(o.desc) ^ uint64(o.chosen+7)
	t.op = nil
}

func (sc *sched) perform(t *thread, o *op) {
	switch o.kind {
	case opYield, opCond:
		if o.perform != nil {
			o.perform()
		}
	case opSend, opRecv, opSelect:
		var en []int
		for i := range o.cases {
			if sc.caseEnabled(t, &o.cases[i]) {
				en = append(en, i)
			}
		}
		if len(en) == 0 {
			if !o.hasDefault {
				panic("vs: performing a blocked channel operation")
			}
			o.chosen = -1
			if o.kind == opSelect {
				sc.defaults[o.site]++
			}
			return
		}
		k := 0
		if len(en) > 1 {
			k = sc.choose('S', len(en), false, o.site)
		}
		o.chosen = en[k]
		sc.performCase(t, &o.cases[o.chosen])
	}
}

// yield posts an op for the current thread and runs the dispatcher.
func (sc *sched) yield(o *op) {
	t := sc.cur
	sc.seq++
	o.parkSeq = sc.seq
	t.op = o
	sc.dispatch(t)
}

func (sc *sched) sig() {
	var h uint64 = 1469598103934665603
	for _, t := range sc.threads {
		h = h*1099511628211 ^ t.hist
		if t.done {
			h ^= 0x9e3779b97f4a7c15
		}
	}
	for _, c := range sc.chans {
		h = h*1099511628211 ^ uint64(len(c.buf)+1)
		if c.closed {
			h ^= 0x51ed270b
		}
	}
	sc.sigs = append(sc.sigs, h)
}

func hashStr(x string) uint64 {
	var h uint64 = 14695981039346656037
	for i := 0; i < len(x); i++ {
		h = (h ^ uint64(x[i])) * 1099511628211
	}
	return h
}

// ---- timers -------------------------------------------------------------------------------------

func (sc *sched) nextTimer() *timer {
	var best *timer
	for _, tm := range sc.timers {
		if tm.dead {
			continue
		}
		if best == nil || tm.when < best.when || tm.when == best.when && tm.seq < best.seq {
			best = tm
		}
	}
	return best
}

func (sc *sched) fireNext() {
	first := sc.nextTimer()
	var same []*timer
	for _, tm := range sc.timers {
		if !tm.dead && tm.when == first.when {
			same = append(same, tm)
		}
	}
	sort.Slice(same, func(i, j int) bool { return same[i].seq < same[j].seq })
	k := 0
	if len(same) > 1 {
		k = sc.choose('C', len(same), false, "equal deadlines")
	}
	tm := same[k]
	tm.dead = true
	if traceOn {
		fmt.Fprintf(os.Stderr, "vs %8v step %4d point %3d: timer %q fires at %v\n", sc.now, sc.steps, len(sc.points), tm.label, tm.when)
	}
	if tm.when > sc.now {
		sc.now = tm.when
	}
	sc.compactTimers()
	sc.inFire, sc.fireVC = true, tm.vc
	tm.fire()
	sc.inFire, sc.fireVC = false, nil
}

func (sc *sched) compactTimers() {
	j := 0
	for _, tm := range sc.timers {
		if !tm.dead {
			sc.timers[j] = tm
			j++
		}
	}
	sc.timers = sc.timers[:j]
}

func (sc *sched) addTimer(d time.Duration, label string, fire func()) *timer {
	if d < 0 {
		d = 0
	}
	sc.seq++
	tm := &timer{when: sc.now + d, seq: sc.seq, fire: fire, label: label}
	if sc.cur != nil {
		tm.vc = sc.cur.vc.clone()
		sc.cur.vc.tick(sc.cur.id)
	}
	sc.timers = append(sc.timers, tm)
	return tm
}

// ---- user-facing basics -------------------------------------------------------------------------

// Go starts a new thread (rewritten `go` statement).
func Go(f func()) {
	name := ""
	if s != nil {
		name = fmt.Sprintf("g%d@%s", len(s.threads), callerSite(2))
	}
	GoNamed(name, false, f)
}

// GoNamed starts a named thread; required threads must finish for the execution to be "done".
func GoNamed(name string, required bool, f func()) {
	sc := enter()
	if sc == nil {
		go f()
		return
	}
	if name == "" {
		name = fmt.Sprintf("g%d@%s", len(sc.threads), callerSite(2))
	}
	t := sc.newThread(name, required)
	parent := sc.cur
	t.vc = parent.vc.clone()
	t.vc[t.id] = 1
	parent.vc.tick(parent.id)
	t.op = &op{kind: opYield, desc: "start"}
	sc.wg.Add(1)
	go sc.root(t, f, true)
	sc.yield(&op{kind: opYield, desc: "go"})
}

// InTimer reports whether the caller runs inside a timer callback (scheduler context, no thread).
func InTimer() bool { return s != nil && s.inFire }

// GoFromScheduler starts a thread from a timer callback (time.AfterFunc).
func GoFromScheduler(name string, f func()) {
	sc := s
	if sc == nil || sc.aborting {
		return
	}
	t := sc.newThread(fmt.Sprintf("%s#%d", name, len(sc.threads)), false)
	if sc.inFire && sc.fireVC != nil {
		own := t.vc[t.id]
		t.vc = sc.fireVC.clone()
		t.vc[t.id] = own
	}
	t.op = &op{kind: opYield, desc: "start"}
	sc.wg.Add(1)
	go sc.root(t, f, true)
}

// Yield is a pure scheduling point.
func Yield() {
	if sc := enter(); sc != nil {
		sc.yield(&op{kind: opYield, desc: "yield"})
	}
}

// Choose is an environment decision point with n alternatives (default 0).
func Choose(site string, n int) int {
	sc := enter()
	if sc == nil {
		return 0
	}
	return sc.choose('E', n, false, site)
}

// WaitUntil blocks the current thread until pred holds (pred is evaluated by the scheduler).
func WaitUntil(desc string, pred func() bool) {
	sc := enter()
	if sc == nil {
		panic("vs.WaitUntil outside an execution")
	}
	sc.yield(&op{kind: opCond, pred: pred, desc: desc})
}

// WaitQuiescent blocks the current thread until no other thread is enabled (all others are blocked
// or finished): used by harnesses to let library goroutines run to rest before judging.
func WaitQuiescent() {
	sc := enter()
	if sc == nil {
		return
	}
	me := sc.cur
	sc.yield(&op{kind: opCond, desc: "quiescence", quiesce: true, pred: func() bool {
		for _, t := range sc.threads {
			// another thread that waits for quiescence itself does not count as activity (and asking
			// whether it is enabled would ask this very question again)
			if t != me && !t.done && !(t.op != nil && t.op.quiesce) && sc.opEnabled(t) {
				return false
			}
		}
		return true
	}})
}

// Mark records how many choice points had been made when the harness first reached the named place
// (Explorer.FromMark restricts deviations to the part of the execution after it).
func Mark(name string) {
	if s == nil {
		return
	}
	if s.marks == nil {
		s.marks = map[string]int{}
	}
	if _, ok := s.marks[name]; !ok {
		s.marks[name] = len(s.points)
	}
}

// Logf records a harness observation.
func Logf(format string, a ...any) {
	if s != nil {
		s.log = append(s.log, fmt.Sprintf(format, a...))
	}
}

// Now is the virtual time.
func Now() time.Time {
	if s == nil {
		return time.Now()
	}
	return epoch.Add(s.now)
}

func Elapsed() time.Duration {
	if s == nil {
		return 0
	}
	return s.now
}

// ThreadName returns the current thread's name.
func ThreadName() string {
	if s == nil || s.cur == nil {
		return "?"
	}
	return s.cur.name
}

func callerSite(skip int) string {
	_, file, line, ok := runtime.Caller(skip)
	if !ok {
		return "?"
	}
	if i := strings.LastIndex(file, "/"); i >= 0 {
		if j := strings.LastIndex(file[:i], "/"); j >= 0 {
			file = file[j+1:]
		}
	}
	return fmt.Sprintf("%s:%d", file, line)
}

func siteFromStack(st string) string {
	lines := strings.Split(st, "\n")
	seen := false
	for _, ln := range lines {
		if strings.HasPrefix(ln, "panic(") {
			seen = true
			continue
		}
		if !seen || strings.HasPrefix(ln, "\t") {
			continue
		}
		if i := strings.Index(ln, "la5nta/wl2k-go/"); i >= 0 {
			fn := ln[i+len("la5nta/wl2k-go/"):]
			if j := strings.LastIndex(fn, "("); j > 0 {
				fn = fn[:j]
			}
			return fn
		}
	}
	return "?"
}
