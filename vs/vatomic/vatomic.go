// Package vatomic mirrors sync/atomic: every operation is a scheduling point and a
// happens-before edge on one global object per address class (sound over-approximation of
// ordering: sequentially consistent atomics).
package vatomic

import (
	"sync/atomic"
	"unsafe"

	"verif/vs"
)

var objs = map[unsafe.Pointer]*vs.SyncObj{}

func init() { vs.RegisterReset(func() { objs = map[unsafe.Pointer]*vs.SyncObj{} }) }

func obj(p unsafe.Pointer) *vs.SyncObj {
	o := objs[p]
	if o == nil {
		o = &vs.SyncObj{}
		objs[p] = o
	}
	return o
}

func pre(p unsafe.Pointer) *vs.SyncObj {
	if !vs.Active() {
		return nil
	}
	vs.SchedPoint("atomic")
	o := obj(p)
	o.Acquire()
	return o
}

func post(o *vs.SyncObj) {
	if o != nil {
		o.Release()
	}
}

func LoadInt32(a *int32) int32 {
	o := pre(unsafe.Pointer(a))
	defer post(o)
	return atomic.LoadInt32(a)
}
func LoadInt64(a *int64) int64 {
	o := pre(unsafe.Pointer(a))
	defer post(o)
	return atomic.LoadInt64(a)
}
func LoadUint32(a *uint32) uint32 {
	o := pre(unsafe.Pointer(a))
	defer post(o)
	return atomic.LoadUint32(a)
}
func LoadUint64(a *uint64) uint64 {
	o := pre(unsafe.Pointer(a))
	defer post(o)
	return atomic.LoadUint64(a)
}
func StoreInt32(a *int32, v int32) {
	o := pre(unsafe.Pointer(a))
	defer post(o)
	atomic.StoreInt32(a, v)
}
func StoreInt64(a *int64, v int64) {
	o := pre(unsafe.Pointer(a))
	defer post(o)
	atomic.StoreInt64(a, v)
}
func StoreUint32(a *uint32, v uint32) {
	o := pre(unsafe.Pointer(a))
	defer post(o)
	atomic.StoreUint32(a, v)
}
func StoreUint64(a *uint64, v uint64) {
	o := pre(unsafe.Pointer(a))
	defer post(o)
	atomic.StoreUint64(a, v)
}
func AddInt32(a *int32, d int32) int32 {
	o := pre(unsafe.Pointer(a))
	defer post(o)
	return atomic.AddInt32(a, d)
}
func AddInt64(a *int64, d int64) int64 {
	o := pre(unsafe.Pointer(a))
	defer post(o)
	return atomic.AddInt64(a, d)
}
func AddUint32(a *uint32, d uint32) uint32 {
	o := pre(unsafe.Pointer(a))
	defer post(o)
	return atomic.AddUint32(a, d)
}
func AddUint64(a *uint64, d uint64) uint64 {
	o := pre(unsafe.Pointer(a))
	defer post(o)
	return atomic.AddUint64(a, d)
}
func CompareAndSwapInt32(a *int32, old, new int32) bool {
	o := pre(unsafe.Pointer(a))
	defer post(o)
	return atomic.CompareAndSwapInt32(a, old, new)
}
func CompareAndSwapInt64(a *int64, old, new int64) bool {
	o := pre(unsafe.Pointer(a))
	defer post(o)
	return atomic.CompareAndSwapInt64(a, old, new)
}
func SwapInt32(a *int32, v int32) int32 {
	o := pre(unsafe.Pointer(a))
	defer post(o)
	return atomic.SwapInt32(a, v)
}
func SwapInt64(a *int64, v int64) int64 {
	o := pre(unsafe.Pointer(a))
	defer post(o)
	return atomic.SwapInt64(a, v)
}

type Bool struct{ v atomic.Bool }

func (b *Bool) Load() bool   { o := pre(unsafe.Pointer(b)); defer post(o); return b.v.Load() }
func (b *Bool) Store(x bool) { o := pre(unsafe.Pointer(b)); defer post(o); b.v.Store(x) }
func (b *Bool) Swap(x bool) bool {
	o := pre(unsafe.Pointer(b))
	defer post(o)
	return b.v.Swap(x)
}
func (b *Bool) CompareAndSwap(old, new bool) bool {
	o := pre(unsafe.Pointer(b))
	defer post(o)
	return b.v.CompareAndSwap(old, new)
}

type Int32 struct{ v atomic.Int32 }

func (b *Int32) Load() int32        { o := pre(unsafe.Pointer(b)); defer post(o); return b.v.Load() }
func (b *Int32) Store(x int32)      { o := pre(unsafe.Pointer(b)); defer post(o); b.v.Store(x) }
func (b *Int32) Add(x int32) int32  { o := pre(unsafe.Pointer(b)); defer post(o); return b.v.Add(x) }
func (b *Int32) Swap(x int32) int32 { o := pre(unsafe.Pointer(b)); defer post(o); return b.v.Swap(x) }
func (b *Int32) CompareAndSwap(old, new int32) bool {
	o := pre(unsafe.Pointer(b))
	defer post(o)
	return b.v.CompareAndSwap(old, new)
}

type Int64 struct{ v atomic.Int64 }

func (b *Int64) Load() int64        { o := pre(unsafe.Pointer(b)); defer post(o); return b.v.Load() }
func (b *Int64) Store(x int64)      { o := pre(unsafe.Pointer(b)); defer post(o); b.v.Store(x) }
func (b *Int64) Add(x int64) int64  { o := pre(unsafe.Pointer(b)); defer post(o); return b.v.Add(x) }
func (b *Int64) Swap(x int64) int64 { o := pre(unsafe.Pointer(b)); defer post(o); return b.v.Swap(x) }
func (b *Int64) CompareAndSwap(old, new int64) bool {
	o := pre(unsafe.Pointer(b))
	defer post(o)
	return b.v.CompareAndSwap(old, new)
}

type Uint32 struct{ v atomic.Uint32 }

func (b *Uint32) Load() uint32        { o := pre(unsafe.Pointer(b)); defer post(o); return b.v.Load() }
func (b *Uint32) Store(x uint32)      { o := pre(unsafe.Pointer(b)); defer post(o); b.v.Store(x) }
func (b *Uint32) Add(x uint32) uint32 { o := pre(unsafe.Pointer(b)); defer post(o); return b.v.Add(x) }

type Uint64 struct{ v atomic.Uint64 }

func (b *Uint64) Load() uint64        { o := pre(unsafe.Pointer(b)); defer post(o); return b.v.Load() }
func (b *Uint64) Store(x uint64)      { o := pre(unsafe.Pointer(b)); defer post(o); b.v.Store(x) }
func (b *Uint64) Add(x uint64) uint64 { o := pre(unsafe.Pointer(b)); defer post(o); return b.v.Add(x) }

type Value struct{ v atomic.Value }

func (b *Value) Load() any   { o := pre(unsafe.Pointer(b)); defer post(o); return b.v.Load() }
func (b *Value) Store(x any) { o := pre(unsafe.Pointer(b)); defer post(o); b.v.Store(x) }

type Pointer[T any] struct{ v atomic.Pointer[T] }

func (b *Pointer[T]) Load() *T   { o := pre(unsafe.Pointer(b)); defer post(o); return b.v.Load() }
func (b *Pointer[T]) Store(x *T) { o := pre(unsafe.Pointer(b)); defer post(o); b.v.Store(x) }
