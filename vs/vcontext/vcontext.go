// Package vcontext mirrors package context on the controlled scheduler (Done returns a scheduler
// channel; deadlines are virtual timers).
package vcontext

import (
	"context"
	"time"

	"verif/vs"
)

var (
	Canceled         = context.Canceled
	DeadlineExceeded = context.DeadlineExceeded
)

type CancelFunc func()

type Context interface {
	Deadline() (deadline time.Time, ok bool)
	Done() *vs.Chan[struct{}]
	Err() error
	Value(key any) any
}

type background struct{}

func (background) Deadline() (time.Time, bool) { return time.Time{}, false }
func (background) Done() *vs.Chan[struct{}]    { return nil }
func (background) Err() error                  { return nil }
func (background) Value(any) any               { return nil }

func Background() Context { return background{} }
func TODO() Context       { return background{} }

type cancelCtx struct {
	parent   Context
	done     *vs.Chan[struct{}]
	err      error
	children []*cancelCtx
	deadline time.Time
	hasDL    bool
	stop     func() bool
	after    []*afterReg
}

type afterReg struct {
	f       func()
	stopped bool
	started bool
}

func (a *afterReg) start() {
	if a.stopped || a.started {
		return
	}
	a.started = true
	if vs.InTimer() {
		vs.GoFromScheduler("context.AfterFunc", a.f)
	} else {
		vs.GoNamed("context.AfterFunc", false, a.f)
	}
}

// AfterFunc arranges to call f in its own goroutine after ctx is done (context.AfterFunc).
func AfterFunc(ctx Context, f func()) (stop func() bool) {
	a := &afterReg{f: f}
	var c *cancelCtx
	switch x := ctx.(type) {
	case *cancelCtx:
		c = x
	case *valueCtx:
		c = x.cancelParent()
	}
	if c != nil {
		if c.err != nil {
			a.start()
		} else {
			c.after = append(c.after, a)
		}
	}
	return func() bool {
		if a.started || a.stopped {
			return false
		}
		a.stopped = true
		return true
	}
}

func (c *cancelCtx) Deadline() (time.Time, bool) {
	if c.hasDL {
		return c.deadline, true
	}
	return c.parent.Deadline()
}
func (c *cancelCtx) Done() *vs.Chan[struct{}] { return c.done }
func (c *cancelCtx) Err() error               { return c.err }
func (c *cancelCtx) Value(k any) any          { return c.parent.Value(k) }

func (c *cancelCtx) cancel(err error) {
	if c.err != nil {
		return
	}
	c.err = err
	vs.SchedulerClose(c.done)
	if c.stop != nil {
		c.stop()
	}
	for _, ch := range c.children {
		ch.cancel(err)
	}
	for _, a := range c.after {
		a.start()
	}
}

func newCancel(parent Context) *cancelCtx {
	c := &cancelCtx{parent: parent, done: vs.NewChan[struct{}]()}
	if p, ok := parent.(*cancelCtx); ok {
		if p.err != nil {
			c.cancel(p.err)
		} else {
			p.children = append(p.children, c)
		}
	} else if v, ok := parent.(*valueCtx); ok {
		if p := v.cancelParent(); p != nil {
			if p.err != nil {
				c.cancel(p.err)
			} else {
				p.children = append(p.children, c)
			}
		}
	}
	return c
}

func WithCancel(parent Context) (Context, CancelFunc) {
	c := newCancel(parent)
	return c, func() { c.cancel(Canceled) }
}

func WithDeadline(parent Context, d time.Time) (Context, CancelFunc) {
	c := newCancel(parent)
	if cur, ok := parent.Deadline(); ok && cur.Before(d) {
		return c, func() { c.cancel(Canceled) }
	}
	c.deadline, c.hasDL = d, true
	if c.err == nil {
		dur := d.Sub(vs.Now())
		if dur <= 0 {
			c.cancel(DeadlineExceeded)
		} else {
			c.stop = vs.AddTimer(dur, "context deadline", func() { c.cancel(DeadlineExceeded) })
		}
	}
	return c, func() { c.cancel(Canceled) }
}

func WithTimeout(parent Context, d time.Duration) (Context, CancelFunc) {
	return WithDeadline(parent, vs.Now().Add(d))
}

type valueCtx struct {
	Context
	k, v any
}

func (v *valueCtx) Value(k any) any {
	if k == v.k {
		return v.v
	}
	return v.Context.Value(k)
}

func (v *valueCtx) cancelParent() *cancelCtx {
	switch p := v.Context.(type) {
	case *cancelCtx:
		return p
	case *valueCtx:
		return p.cancelParent()
	}
	return nil
}

func WithValue(parent Context, k, v any) Context { return &valueCtx{parent, k, v} }

func Cause(c Context) error { return c.Err() }
