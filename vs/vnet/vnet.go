// Package vnet mirrors the part of package net the transports use, over in-memory streams owned by
// the controlled scheduler: segmentation plans, cut plans, virtual deadlines, write latency.
package vnet

import (
	"errors"
	"fmt"
	"io"
	"net"
	"os"
	"syscall"
	"time"

	"verif/vs"
	"verif/vs/vcontext"
)

type (
	Conn      = net.Conn
	Addr      = net.Addr
	Listener  = net.Listener
	Error     = net.Error
	OpError   = net.OpError
	TCPAddr   = net.TCPAddr
	IP        = net.IP
	AddrError = net.AddrError
	DNSError  = net.DNSError
	UnixAddr  = net.UnixAddr
)

var (
	ErrClosed      = net.ErrClosed
	ResolveTCPAddr = net.ResolveTCPAddr
	SplitHostPort  = net.SplitHostPort
	JoinHostPort   = net.JoinHostPort
	ParseIP        = net.ParseIP
)

// Seg is a segmentation plan: offsets at which a Read must stop.
type Seg struct {
	Every int
	Cuts  []int
}

func (s Seg) limit(off int) int {
	lim := 1 << 30
	if s.Every > 0 {
		lim = s.Every - off%s.Every
	}
	for _, c := range s.Cuts {
		if c > off {
			if c-off < lim {
				lim = c - off
			}
			break
		}
	}
	return lim
}

type stream struct {
	data    []byte
	rpos    int
	wclosed bool
	rclosed bool
	reset   bool // the writing end was closed with SO_LINGER 0: what was not read yet is gone, the reader gets ECONNRESET
	Seg     Seg
	all     []byte
}

// TCPConn is the in-memory connection (the rewritten code's *net.TCPConn is *vnet.TCPConn).
type TCPConn struct {
	in, out    *stream
	closed     bool
	local, rem string
	rdl, wdl   time.Time
	WriteDelay time.Duration // virtual time every Write takes (transport pacing)
	Name       string
	Closes     int
	TxBuf      func() int
	linger0    bool
}

type timeoutErr struct{}

func (timeoutErr) Error() string   { return "i/o timeout" }
func (timeoutErr) Timeout() bool   { return true }
func (timeoutErr) Temporary() bool { return true }
func (timeoutErr) Is(e error) bool { return e == os.ErrDeadlineExceeded }

// Pipe returns a connected pair.
func Pipe(nameA, nameB string) (*TCPConn, *TCPConn) {
	ab, ba := &stream{}, &stream{}
	return &TCPConn{in: ba, out: ab, local: nameA, rem: nameB, Name: nameA}, &TCPConn{in: ab, out: ba, local: nameB, rem: nameA, Name: nameB}
}

// SetReadSeg sets the segmentation plan of the bytes this end reads.
func (c *TCPConn) SetReadSeg(s Seg) { c.in.Seg = s }

// Written returns everything this end has written.
func (c *TCPConn) Written() []byte { return c.out.all }

func (c *TCPConn) readable() bool {
	return c.closed || len(c.in.data) > c.in.rpos || c.in.wclosed || !c.rdl.IsZero() && !vs.Now().Before(c.rdl)
}

func (c *TCPConn) Read(p []byte) (int, error) {
	if !vs.Active() {
		return 0, io.EOF
	}
	if len(p) == 0 {
		return 0, nil
	}
	vs.WaitUntil("conn.Read "+c.Name, c.readable)
	switch {
	case c.closed:
		return 0, &net.OpError{Op: "read", Net: "vnet", Err: net.ErrClosed}
	case len(c.in.data) > c.in.rpos:
		n := len(p)
		if a := len(c.in.data) - c.in.rpos; a < n {
			n = a
		}
		if l := c.in.Seg.limit(c.in.rpos); l < n {
			n = l
		}
		copy(p, c.in.data[c.in.rpos:c.in.rpos+n])
		c.in.rpos += n
		return n, nil
	case c.in.reset:
		return 0, &net.OpError{Op: "read", Net: "vnet", Err: syscall.ECONNRESET}
	case c.in.wclosed:
		return 0, io.EOF
	default:
		return 0, &net.OpError{Op: "read", Net: "vnet", Err: timeoutErr{}}
	}
}

func (c *TCPConn) Write(p []byte) (int, error) {
	if !vs.Active() {
		return 0, net.ErrClosed
	}
	if c.WriteDelay > 0 {
		fired := false
		vs.AddTimer(c.WriteDelay, "write latency", func() { fired = true })
		vs.WaitUntil("conn.Write "+c.Name, func() bool { return fired })
	} else {
		vs.SchedPoint("conn.Write " + c.Name)
	}
	if c.closed {
		return 0, &net.OpError{Op: "write", Net: "vnet", Err: net.ErrClosed}
	}
	if !c.wdl.IsZero() && !vs.Now().Before(c.wdl) {
		return 0, &net.OpError{Op: "write", Net: "vnet", Err: timeoutErr{}}
	}
	if c.out.rclosed {
		return 0, &net.OpError{Op: "write", Net: "vnet", Err: syscall.EPIPE}
	}
	c.out.data = append(c.out.data, p...)
	c.out.all = append(c.out.all, p...)
	return len(p), nil
}

func (c *TCPConn) Close() error {
	if vs.Active() {
		vs.SchedPoint("conn.Close " + c.Name)
	}
	c.Closes++
	if c.closed {
		return &net.OpError{Op: "close", Net: "vnet", Err: net.ErrClosed}
	}
	c.closed = true
	c.out.wclosed = true
	c.in.rclosed = true
	if c.linger0 { // abortive close: the send queue is discarded and the peer is reset (the worst case the kernel allows)
		c.out.data = c.out.data[:c.out.rpos]
		c.out.reset = true
	}
	return nil
}

// CloseWrite half-closes (the peer sees EOF after draining).
func (c *TCPConn) CloseWrite() error { c.out.wclosed = true; return nil }

type addr string

func (a addr) Network() string { return "tcp" }
func (a addr) String() string  { return string(a) }

func (c *TCPConn) LocalAddr() net.Addr  { return addr(c.local) }
func (c *TCPConn) RemoteAddr() net.Addr { return addr(c.rem) }

func (c *TCPConn) armDeadline(t time.Time) {
	if t.IsZero() || !vs.Active() {
		return
	}
	if d := t.Sub(vs.Now()); d > 0 {
		vs.AddTimer(d, "conn deadline", func() {})
	}
}

func (c *TCPConn) SetDeadline(t time.Time) error {
	c.rdl, c.wdl = t, t
	c.armDeadline(t)
	return nil
}
func (c *TCPConn) SetReadDeadline(t time.Time) error  { c.rdl = t; c.armDeadline(t); return nil }
func (c *TCPConn) SetWriteDeadline(t time.Time) error { c.wdl = t; c.armDeadline(t); return nil }
func (c *TCPConn) SetKeepAlive(bool) error            { return nil }
func (c *TCPConn) SetNoDelay(bool) error              { return nil }
func (c *TCPConn) SetLinger(sec int) error            { c.linger0 = sec == 0; return nil }
func (c *TCPConn) TxBufferLen() int {
	if c.TxBuf != nil {
		return c.TxBuf()
	}
	return 0
}

// ---- listeners and dialing -------------------------------------------------------------------

type listener struct {
	addr    string
	pending []*TCPConn
	closed  bool
}

var listeners = map[string]*listener{}

// OnPipe, if set, is called for every connection pair created by a dial (harness: set plans).
var OnPipe func(client, server *TCPConn)

// DialHook, if set for an address, decides what a dial to it does (harness-scripted servers).
var DialHook = map[string]func(client, server *TCPConn) error{}

func init() {
	vs.RegisterReset(func() {
		listeners = map[string]*listener{}
		DialHook = map[string]func(client, server *TCPConn) error{}
		OnPipe = nil
	})
}

func Listen(network, address string) (net.Listener, error) {
	if address == "" || address[len(address)-1] == ':' || address == ":0" {
		address = fmt.Sprintf("%s%d", address, 40000+len(listeners))
	}
	if _, ok := listeners[address]; ok {
		return nil, &net.OpError{Op: "listen", Net: network, Err: syscall.EADDRINUSE}
	}
	l := &listener{addr: address}
	listeners[address] = l
	return l, nil
}

func (l *listener) Accept() (net.Conn, error) {
	vs.WaitUntil("Accept "+l.addr, func() bool { return l.closed || len(l.pending) > 0 })
	if l.closed {
		return nil, &net.OpError{Op: "accept", Net: "tcp", Err: net.ErrClosed}
	}
	c := l.pending[0]
	l.pending = l.pending[1:]
	return c, nil
}

func (l *listener) Close() error {
	l.closed = true
	delete(listeners, l.addr)
	return nil
}
func (l *listener) Addr() net.Addr { return addr(l.addr) }

var errRefused = &net.OpError{Op: "dial", Net: "tcp", Err: syscall.ECONNREFUSED}

func dial(ctx vcontext.Context, address string) (*TCPConn, error) {
	vs.SchedPoint("dial " + address)
	if ctx != nil && ctx.Err() != nil {
		return nil, &net.OpError{Op: "dial", Net: "tcp", Err: ctx.Err()}
	}
	cl, sv := Pipe("client->"+address, address)
	if OnPipe != nil {
		OnPipe(cl, sv)
	}
	if h, ok := DialHook[address]; ok {
		if err := h(cl, sv); err != nil {
			return nil, err
		}
		return cl, nil
	}
	l, ok := listeners[address]
	if !ok || l.closed {
		return nil, errRefused
	}
	l.pending = append(l.pending, sv)
	return cl, nil
}

// ErrNeverConnects makes a DialHook model a server that never completes the connection: the dial
// blocks until its context is done.
var ErrNeverConnects = errors.New("vnet: never connects")

func Dial(network, address string) (net.Conn, error) {
	c, err := dial(nil, address)
	if err != nil {
		return nil, err
	}
	return c, nil
}

func DialTimeout(network, address string, d time.Duration) (net.Conn, error) {
	ctx, cancel := vcontext.WithTimeout(vcontext.Background(), d)
	defer cancel()
	var dl Dialer
	return dl.DialContext(ctx, network, address)
}

func DialTCP(network string, laddr, raddr *net.TCPAddr) (*TCPConn, error) {
	return dial(nil, raddr.String())
}

type Dialer struct {
	Timeout   time.Duration
	Deadline  time.Time
	KeepAlive time.Duration
	LocalAddr net.Addr
}

func (d *Dialer) Dial(network, address string) (net.Conn, error) {
	return d.DialContext(vcontext.Background(), network, address)
}

func (d *Dialer) DialContext(ctx vcontext.Context, network, address string) (net.Conn, error) {
	if d.Timeout > 0 {
		var cancel vcontext.CancelFunc
		ctx, cancel = vcontext.WithTimeout(ctx, d.Timeout)
		defer cancel()
	}
	c, err := dial(ctx, address)
	if err == ErrNeverConnects {
		if ctx.Done() == nil {
			vs.WaitUntil("dial (never connects)", func() bool { return false })
		}
		ctx.Done().Recv()
		return nil, &net.OpError{Op: "dial", Net: network, Err: timeoutErr{}}
	}
	if err != nil {
		return nil, err
	}
	return c, nil
}
