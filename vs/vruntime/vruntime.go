// Package vruntime mirrors the few runtime functions the packages use.
package vruntime

import "runtime"

// SetFinalizer is a no-op: no finalizer goroutine may run outside the scheduler.
func SetFinalizer(obj any, finalizer any) {}

var (
	GOOS         = runtime.GOOS
	GOARCH       = runtime.GOARCH
	NumCPU       = runtime.NumCPU
	NumGoroutine = runtime.NumGoroutine
	Caller       = runtime.Caller
	Stack        = runtime.Stack
	GC           = runtime.GC
	Version      = runtime.Version
)

func Gosched() {}
