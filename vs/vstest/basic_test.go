package vstest

import (
	"fmt"
	"sort"
	"testing"
	"time"
	"unsafe"

	"verif/vs"
	"verif/vs/vsync"
	"verif/vs/vtime"
)

func outcomes(t *testing.T, bound, mode int, h func()) (map[string]int, *vs.Explorer) {
	out := map[string]int{}
	e := &vs.Explorer{Harness: h, Bound: bound, Mode: mode, Check: func(ch []int, r *vs.Result) {
		k := r.Outcome + ":" + fmt.Sprint(r.Log)
		if r.Panic != nil {
			k += " panic=" + r.Panic.Value
		}
		if len(r.Races) > 0 {
			k += " RACE"
		}
		out[k]++
	}}
	e.Run()
	return out, e
}

func keys(m map[string]int) []string {
	var k []string
	for x := range m {
		k = append(k, x)
	}
	sort.Strings(k)
	return k
}

func TestTwoSenders(t *testing.T) {
	o, e := outcomes(t, 3, vs.DelayBounded, func() {
		c := vs.NewChan[int]()
		vs.Go(func() { c.Send(1) })
		vs.Go(func() { c.Send(2) })
		a, b := c.Recv(), c.Recv()
		vs.Logf("%d%d", a, b)
	})
	t.Log(keys(o), e.Execs)
	if len(o) != 2 {
		t.Fatalf("want both orders, got %v", keys(o))
	}
}

func TestDroppedFrame(t *testing.T) {
	// non-blocking enqueue into a 1-slot queue: loss depends on the schedule
	o, e := outcomes(t, 2, vs.DelayBounded, func() {
		q := vs.NewChan[int](1)
		done := vs.NewChan[int]()
		vs.Go(func() {
			n := 0
			for i := 0; i < 3; i++ {
				n += q.Recv()
				_ = i
				if n >= 0 {
				}
			}
			done.Send(n)
		})
		sent := 0
		for i := 1; i <= 3; i++ {
			if vs.Select("enq", true, q.SendCase(i)) == 0 {
				sent++
			}
		}
		vs.Logf("sent=%d", sent)
	})
	t.Log(keys(o), e.Execs)
	if len(o) < 2 {
		t.Fatalf("expected several outcomes, got %v", keys(o))
	}
}

func TestRaceOracle(t *testing.T) {
	o, _ := outcomes(t, 1, vs.DelayBounded, func() {
		x := 0
		d := vs.NewChan[int]()
		vs.Go(func() { vs.Access(unsafe.Pointer(&x), "x", true, "t"); x++; d.Send(1) })
		vs.Access(unsafe.Pointer(&x), "x", true, "t")
		x++
		d.Recv()
	})
	for k := range o {
		if len(k) < 4 || k[len(k)-4:] != "RACE" {
			t.Fatalf("race not reported in %q", k)
		}
	}
	o, _ = outcomes(t, 2, vs.DelayBounded, func() {
		x := 0
		var mu vsync.Mutex
		d := vs.NewChan[int]()
		vs.Go(func() { mu.Lock(); vs.Access(unsafe.Pointer(&x), "x", true, "t"); x++; mu.Unlock(); d.Send(1) })
		mu.Lock()
		vs.Access(unsafe.Pointer(&x), "x", true, "t")
		x++
		mu.Unlock()
		d.Recv()
	})
	for k := range o {
		if len(k) >= 4 && k[len(k)-4:] == "RACE" {
			t.Fatalf("false race under mutex: %q", k)
		}
	}
}

func TestTimers(t *testing.T) {
	o, e := outcomes(t, 1, vs.DelayBounded, func() {
		work := vs.NewChan[int](1)
		vs.Go(func() { work.Send(1) })
		s := work.NewSlot()
		tm := vtime.After(time.Second)
		ts := tm.NewSlot()
		switch vs.Select("sel", false, work.RecvCase(s), tm.RecvCase(ts)) {
		case 0:
			vs.Logf("work at %v", vs.Elapsed())
		case 1:
			vs.Logf("timeout at %v", vs.Elapsed())
		}
	})
	t.Log(keys(o), e.Execs)
	if len(o) < 2 {
		t.Fatalf("want work and (timer-first deviation) timeout, got %v", keys(o))
	}
}

func TestDeadlock(t *testing.T) {
	o, _ := outcomes(t, 0, vs.DelayBounded, func() {
		c := vs.NewChan[int]()
		c.Recv()
	})
	if len(o) != 1 || keys(o)[0][:8] != "deadlock" {
		t.Fatalf("%v", keys(o))
	}
}

func TestPanicAndTeardown(t *testing.T) {
	for i := 0; i < 200; i++ {
		r := vs.Run(vs.Config{}, func() {
			var mu vsync.Mutex
			c := vs.NewChan[int]()
			vs.Go(func() { mu.Lock(); defer mu.Unlock(); c.Recv() })
			vs.Go(func() { defer c.Close(); panic("boom") })
			vtime.Sleep(time.Second)
		})
		if r.Outcome != "panic" || r.Panic.Value != "boom" {
			t.Fatalf("%+v", r)
		}
	}
}
