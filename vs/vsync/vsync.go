// Package vsync mirrors package sync on top of the controlled scheduler.
package vsync

import (
	"sync"

	"verif/vs"
)

type Locker = sync.Locker

// Map is a data container, not a scheduling construct: the real one is safe because only the baton
// holder runs.
type Map = sync.Map

// Pool models sync.Pool deterministically: a LIFO that starts every execution empty (the real one
// keeps per-P caches and is cleared by the garbage collector, which would make replays diverge).
// What the real Pool is allowed to do - forget an item - is an environment choice (default: keep).
type Pool struct {
	New   func() any
	items []any
	epoch int
}

func (p *Pool) fresh() {
	if e := vs.RunSeq(); e != p.epoch {
		p.epoch, p.items = e, nil
	}
}

func (p *Pool) Get() any {
	p.fresh()
	if n := len(p.items); n > 0 {
		x := p.items[n-1]
		p.items = p.items[:n-1]
		if vs.Choose("sync.Pool forgets the item", 2) == 0 {
			return x
		}
	}
	if p.New != nil {
		return p.New()
	}
	return nil
}

func (p *Pool) Put(x any) {
	if x == nil {
		return
	}
	p.fresh()
	p.items = append(p.items, x)
}

type Mutex struct {
	locked bool
	so     vs.SyncObj
	real   sync.Mutex
}

func (m *Mutex) Lock() {
	if !vs.Active() {
		m.real.Lock()
		return
	}
	vs.WaitUntil("mutex.Lock", func() bool { return !m.locked })
	m.locked = true
	m.so.Acquire()
}

func (m *Mutex) TryLock() bool {
	if !vs.Active() {
		return m.real.TryLock()
	}
	vs.SchedPoint("mutex.TryLock")
	if m.locked {
		return false
	}
	m.locked = true
	m.so.Acquire()
	return true
}

func (m *Mutex) Unlock() {
	if !vs.Active() {
		if m.locked { // taken inside an execution that is being torn down
			m.locked = false
			return
		}
		m.real.Unlock()
		return
	}
	if !m.locked {
		panic("sync: unlock of unlocked mutex")
	}
	m.so.Release()
	m.locked = false
}

type RWMutex struct {
	writer  bool
	readers int
	so      vs.SyncObj // published by writers (Unlock); acquired by readers and writers
	rso     vs.SyncObj // published by readers (RUnlock); acquired by writers only
	real    sync.RWMutex
}

func (m *RWMutex) Lock() {
	if !vs.Active() {
		m.real.Lock()
		return
	}
	vs.WaitUntil("rwmutex.Lock", func() bool { return !m.writer && m.readers == 0 })
	m.writer = true
	m.so.Acquire()
	m.rso.Acquire()
}

func (m *RWMutex) Unlock() {
	if !vs.Active() {
		if m.writer {
			m.writer = false
			return
		}
		m.real.Unlock()
		return
	}
	if !m.writer {
		panic("sync: Unlock of unlocked RWMutex")
	}
	m.so.Release()
	m.writer = false
}

func (m *RWMutex) RLock() {
	if !vs.Active() {
		m.real.RLock()
		return
	}
	vs.WaitUntil("rwmutex.RLock", func() bool { return !m.writer })
	m.readers++
	m.so.Acquire()
}

func (m *RWMutex) RUnlock() {
	if !vs.Active() {
		if m.readers > 0 {
			m.readers--
			return
		}
		m.real.RUnlock()
		return
	}
	if m.readers == 0 {
		panic("sync: RUnlock of unlocked RWMutex")
	}
	// readers publish to the next writer only, never to each other: two "readers" that actually
	// write are therefore reported as a race
	m.rso.Release()
	m.readers--
}

func (m *RWMutex) RLocker() Locker { return rlocker{m} }

type rlocker struct{ m *RWMutex }

func (r rlocker) Lock()   { r.m.RLock() }
func (r rlocker) Unlock() { r.m.RUnlock() }

type Once struct {
	done    bool
	running bool
	so      vs.SyncObj
	real    sync.Once
}

func (o *Once) Do(f func()) {
	if !vs.Active() {
		if o.done {
			return
		}
		o.real.Do(f)
		return
	}
	vs.WaitUntil("once.Do", func() bool { return !o.running })
	if o.done {
		o.so.Acquire()
		return
	}
	o.running = true
	defer func() {
		o.so.Release()
		o.done, o.running = true, false
	}()
	f()
}

type WaitGroup struct {
	n    int
	so   vs.SyncObj
	real sync.WaitGroup
}

func (w *WaitGroup) Add(d int) {
	if !vs.Active() {
		w.real.Add(d)
		return
	}
	if d < 0 {
		w.so.Release()
	}
	w.n += d
	if w.n < 0 {
		panic("sync: negative WaitGroup counter")
	}
}

func (w *WaitGroup) Done() { w.Add(-1) }

func (w *WaitGroup) Wait() {
	if !vs.Active() {
		w.real.Wait()
		return
	}
	vs.WaitUntil("waitgroup.Wait", func() bool { return w.n == 0 })
	w.so.Acquire()
}

type Cond struct {
	L       Locker
	waiters []*bool
	so      vs.SyncObj
}

func NewCond(l Locker) *Cond { return &Cond{L: l} }

func (c *Cond) Wait() {
	flag := new(bool)
	c.waiters = append(c.waiters, flag)
	c.L.Unlock()
	vs.WaitUntil("cond.Wait", func() bool { return *flag })
	c.so.Acquire()
	c.L.Lock()
}

func (c *Cond) Signal() {
	c.so.Release()
	if len(c.waiters) > 0 {
		*c.waiters[0] = true
		c.waiters = c.waiters[1:]
	}
}

func (c *Cond) Broadcast() {
	c.so.Release()
	for _, w := range c.waiters {
		*w = true
	}
	c.waiters = nil
}

func OnceFunc(f func()) func() {
	var o Once
	return func() { o.Do(f) }
}
