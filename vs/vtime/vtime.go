// Package vtime mirrors package time on the scheduler's virtual clock.
package vtime

import (
	"time"

	"verif/vs"
)

type (
	Time       = time.Time
	Duration   = time.Duration
	Month      = time.Month
	Weekday    = time.Weekday
	Location   = time.Location
	ParseError = time.ParseError
)

const (
	Nanosecond  = time.Nanosecond
	Microsecond = time.Microsecond
	Millisecond = time.Millisecond
	Second      = time.Second
	Minute      = time.Minute
	Hour        = time.Hour

	January   = time.January
	February  = time.February
	March     = time.March
	April     = time.April
	May       = time.May
	June      = time.June
	July      = time.July
	August    = time.August
	September = time.September
	October   = time.October
	November  = time.November
	December  = time.December

	RFC3339     = time.RFC3339
	RFC3339Nano = time.RFC3339Nano
	RFC1123     = time.RFC1123
	RFC1123Z    = time.RFC1123Z
	RFC822      = time.RFC822
	RFC822Z     = time.RFC822Z
	RFC850      = time.RFC850
	ANSIC       = time.ANSIC
	UnixDate    = time.UnixDate
	Kitchen     = time.Kitchen
	Stamp       = time.Stamp
	DateTime    = time.DateTime
	DateOnly    = time.DateOnly
	TimeOnly    = time.TimeOnly
)

var (
	UTC             = time.UTC
	Local           = time.Local
	Parse           = time.Parse
	ParseInLocation = time.ParseInLocation
	ParseDuration   = time.ParseDuration
	Date            = time.Date
	Unix            = time.Unix
	UnixMilli       = time.UnixMilli
	FixedZone       = time.FixedZone
	LoadLocation    = time.LoadLocation
)

func Now() Time             { return vs.Now() }
func Since(t Time) Duration { return vs.Now().Sub(t) }
func Until(t Time) Duration { return t.Sub(vs.Now()) }

func Sleep(d Duration) {
	if !vs.Active() {
		time.Sleep(d)
		return
	}
	fired := false
	vs.AddTimer(d, "sleep", func() { fired = true })
	vs.WaitUntil("sleep", func() bool { return fired })
}

type Timer struct {
	C    *vs.Chan[Time]
	stop func() bool
	f    func()
}

func NewTimer(d Duration) *Timer {
	t := &Timer{C: vs.NewChan[Time](1)}
	t.arm(d)
	return t
}

func (t *Timer) arm(d Duration) {
	t.stop = vs.AddTimer(d, "timer", func() {
		if t.f != nil {
			f := t.f
			vs.GoFromScheduler("afterfunc", f)
			return
		}
		vs.TimerSend(t.C, vs.Now())
	})
}

func (t *Timer) Stop() bool { return t.stop() }

func (t *Timer) Reset(d Duration) bool {
	was := t.stop()
	t.arm(d)
	return was
}

func After(d Duration) *vs.Chan[Time] { return NewTimer(d).C }

func AfterFunc(d Duration, f func()) *Timer {
	t := &Timer{f: f}
	t.arm(d)
	return t
}

type Ticker struct {
	C       *vs.Chan[Time]
	d       Duration
	stop    func() bool
	stopped bool
}

func NewTicker(d Duration) *Ticker {
	if d <= 0 {
		panic("non-positive interval for NewTicker")
	}
	t := &Ticker{C: vs.NewChan[Time](1), d: d}
	t.arm()
	return t
}

func (t *Ticker) arm() {
	t.stop = vs.AddTimer(t.d, "ticker", func() {
		if t.stopped {
			return
		}
		vs.TimerSend(t.C, vs.Now()) // a slow reader loses ticks, as in Go
		t.arm()
	})
}

func (t *Ticker) Stop() {
	t.stopped = true
	t.stop()
}

func (t *Ticker) Reset(d Duration) {
	t.stop()
	t.d = d
	t.stopped = false
	t.arm()
}

func Tick(d Duration) *vs.Chan[Time] { return NewTicker(d).C }
